(* C17 -- the C API as a wrapper of the Rust API (partial).  Only statements, `exact`/computation proofs, Print Assumptions.
   LolGen.CApi is regenerated from c-api/src/*.rs on every run. *)
From LolGen Require Import CApi.
From LolProofs Require Import CApiProto.
From Coq Require Import List String Bool ZArith.
Import ListNotations.
Open Scope string_scope.

Definition entry (name : string) : option (bool * bool * bool) :=
  option_map (fun e => match e with (_, _, cp, le, ex) => (cp, le, ex) end)
             (find (fun e => match e with (_, n, _, _, _) => String.eqb n name end) c_entry_points).

(* Non-unwinding: every entry point that runs the parser and user handlers (build, write, end) executes under catch_panic
   and reports through the last-error slot, so a panic inside the rewriter becomes an error code, not an unwind into C. *)
Theorem C17_rewriting_entry_points_catch_panics :
  forallb (fun n => match entry n with Some (true, true, _) => true | _ => false end)
          ["lol_html_rewriter_build"; "unstable_lol_html_rewriter_build_with_esi_tags"; "lol_html_rewriter_write"; "lol_html_rewriter_end"] = true.
Proof. vm_compute. reflexivity. Qed.
(* every fallible string-taking mutator reports through the last-error slot *)
Theorem C17_fallible_setters_report_errors :
  forallb (fun n => match entry n with Some (_, true, _) => true | _ => false end)
          ["lol_html_element_set_attribute"; "lol_html_element_tag_name_set"; "lol_html_comment_text_set"; "lol_html_selector_parse";
           "lol_html_element_add_end_tag_handler"; "lol_html_streaming_sink_write_str"; "lol_html_streaming_sink_write_utf8_chunk"] = true.
Proof. vm_compute. reflexivity. Qed.

(* The last-error protocol over an arbitrary history of calls on one thread: taking the error returns the message of the
   most recent failing call not yet taken (NULL otherwise) and clears it; successful calls leave it alone. *)
Theorem C17_last_error_protocol :
  forall (h : list c_event) (s : slot), snd (c_step (fst (c_run s h)) Take) = Taken (pending s h).
Proof. exact take_returns_latest_untaken_failure. Qed.
Example C17_protocol_example :
  snd (c_run None [CallFail "a"; CallOk; Take; Take; CallFail "b"; CallFail "c"; Take])
  = [RetCode (-1); RetCode 0; Taken (Some "a"); Taken None; RetCode (-1); RetCode (-1); Taken (Some "c")]%Z.
Proof. vm_compute. reflexivity. Qed.

Print Assumptions C17_rewriting_entry_points_catch_panics.
Print Assumptions C17_fallible_setters_report_errors.
Print Assumptions C17_last_error_protocol.
