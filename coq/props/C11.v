(* C11 -- graceful bail-out conserves bytes.  Only statements, `exact` proofs and Print Assumptions. *)
From LolModel Require Import Machine.
From LolProofs Require Import Tiling TableFacts.
From LolProps Require Import C01.

(* For every observer controller (any capture policy; the failure may come from ANY handler invocation, from the
   memory limiter at any charging site inside Parser::parse, from the arena append or from the first buffering of a
   tail), every configuration and every chunking: at the first failing write, if the matching graceful flag is on,
   the sink holds  prefix ++ (what the bail-out handlers appended) ++ rest  where prefix ++ rest is exactly the
   bytes received so far (nothing lost, nothing duplicated); if the flag is off, nothing is flushed and the sink
   holds a prefix of the received bytes. *)
Theorem C11_bail_out_conserves_bytes :
  forall (C : Type) (ctl : controller C), observer ctl ->
  forall cfg c0 chunks data r res r' e,
    api_run ctl (new_rewriter ctl cfg c0) (map Write chunks) = (r, res) -> Forall (fun x => x = ROk) res ->
    api_step ctl r (Write data) = (r', RErr e) ->
    let received := List.concat chunks ++ data in
    if should_bail_out_for (rw_stream r) e
    then exists pre B post, sink_bytes (rw_sink r') = pre ++ B ++ post /\ pre ++ post = received
    else exists post, sink_bytes (rw_sink r') ++ post = received.
Proof.
  intros C ctl (H1 & H2 & _). exact (first_failing_write ctl H1 H2 table_ok_current).
Qed.

(* each flag covers only its own error kind; parsing ambiguity is never recovered *)
Theorem C11_flags_are_independent :
  forall (C : Type) (s : @stream C),
    should_bail_out_for s MemoryLimitExceeded = s_bail_mem s
    /\ (forall k, should_bail_out_for s (ContentHandlerError k) = s_bail_handler s)
    /\ (forall h, should_bail_out_for s (ParsingAmbiguity h) = false).
Proof. intros; repeat split; reflexivity. Qed.

Print Assumptions C11_bail_out_conserves_bytes.
Print Assumptions C11_flags_are_independent.
