(* C07 -- rewrite operations (partial: token level).  Only statements, `exact` proofs and Print Assumptions. *)
From LolModel Require Import Machine Selectors Rewriter.
From LolProofs Require Import TokenLaws.

Theorem C07_serialization_shape : forall m self,
  serialize_with (Some m) self = encode_chunks m.(mu_before) ++ (if m.(mu_removed) then encode_chunks m.(mu_repl) else self) ++ encode_chunks m.(mu_after).
Proof. exact serialize_with_shape. Qed.
Theorem C07_untouched_token_verbatim : forall self, serialize_with None self = self.
Proof. exact serialize_unmutated. Qed.
Theorem C07_before_appends : forall m c1 c2, mu_before (mget (m_before (m_before m c1) c2)) = mu_before (mget m) ++ [c1; c2].
Proof. exact before_accumulates. Qed.
Theorem C07_after_prepends : forall m c1 c2, mu_after (mget (m_after (m_after m c1) c2)) = c2 :: c1 :: mu_after (mget m).
Proof. exact after_accumulates. Qed.
Theorem C07_replace_overwrites : forall m c1 c2,
  mu_repl (mget (m_replace (m_replace m c1) c2)) = [c2] /\ mu_removed (mget (m_replace (m_replace m c1) c2)) = true
  /\ mu_before (mget (m_replace m c1)) = mu_before (mget m) /\ mu_after (mget (m_replace m c1)) = mu_after (mget m).
Proof. exact replace_overwrites. Qed.
Theorem C07_remove_keeps_insertions : forall m,
  mu_removed (mget (m_remove m)) = true /\ mu_before (mget (m_remove m)) = mu_before (mget m) /\ mu_after (mget (m_remove m)) = mu_after (mget m).
Proof. exact remove_keeps_insertions. Qed.
Theorem C07_untouched_start_tag_verbatim : forall t raw, stt_raw t = Some raw -> stt_mut t = None -> serialize_start_tag t = [raw].
Proof. exact start_tag_verbatim. Qed.
Theorem C07_untouched_attribute_survives_set_attribute : forall t n v t',
  stt_set_attr t n v = inl t' -> forall a, In a (stt_attrs t) -> attr_matches (lower_bytes n) a = false -> In a (stt_attrs t').
Proof. exact set_attr_keeps_others_raw. Qed.
Theorem C07_untouched_attribute_verbatim : forall a raw, at_raw a = Some raw -> serialize_attr a = raw.
Proof. exact untouched_attribute_verbatim. Qed.
(* NOT proved here: the stream-level statement (output = reference edit of the token stream, content removal, deferred
   end-tag edits); exercised by the correspondence run with random operation scripts (families l2edit, l2mixed). *)
Print Assumptions C07_serialization_shape.
Print Assumptions C07_before_appends.
Print Assumptions C07_after_prepends.
Print Assumptions C07_replace_overwrites.
Print Assumptions C07_untouched_attribute_survives_set_attribute.
