(* C13 -- character-encoding fidelity (partial).  Only statements, `exact` proofs and Print Assumptions. *)
From LolModel Require Import Base TextDecoder.
From LolProofs Require Import TextDecoderProof.
From Coq Require Import List.
Import ListNotations.
Open Scope nat_scope.

(* For EVERY streaming decoder that behaves like a whole-buffer decoder cut into pieces (decoder_laws: the assumed
   behaviour of encoding_rs' Decoder::decode_to_str for each of the 36 encodings, see the trusted base), every text node
   and every split of its bytes into lexemes (write boundaries anywhere, also inside a multi-byte character, any number
   of buffer refills): the strings the text handlers receive concatenate to the whole-buffer decode of the node's bytes
   (malformed sequences as the decoder's U+FFFD, an incomplete tail resolved at the end of the node), the chunk ranges
   tile the node exactly (C14's text clause), and exactly the final chunk is flagged last_in_text_node. *)
Theorem C13_text_chunks_are_the_whole_buffer_decode :
  forall (dstate : Type) (dnew : dstate) ddecode valid_up_to Wpart Wfin pend,
  @decoder_laws dstate dnew ddecode valid_up_to Wpart Wfin pend ->
  forall start p pieces,
  let cs := text_node dstate dnew ddecode valid_up_to (p :: pieces) start in
  texts cs = W Wpart Wfin (concat (p :: pieces))
  /\ tiles cs start (start + length (concat (p :: pieces)))
  /\ exists body final, cs = body ++ [final] /\ none_last body /\ tc_last final = true.
Proof. exact (@text_node_correct). Qed.

(* the premise is satisfiable (identity codec on ASCII) ... *)
Example C13_laws_are_satisfiable :
  @decoder_laws unit tt (fun _ inp _ _ => (true, length inp, inp, tt)) (fun raw => length raw) (fun x => (x, [])) (fun _ => []) (fun _ => []).
Proof. exact identity_decoder_laws. Qed.
(* ... and the executable UTF-8 instance used in the correspondence run decodes a character split over three writes,
   a malformed byte and a truncated tail as the whole-buffer decoder does, with tiling ranges *)
Example C13_utf8_instance_example :
  map (fun c => (tc_text c, tc_last c, tc_a c, tc_b c)) (utf8_text_node [[97; 228]; [184]; [173; 255; 195]]%N 10)
  = [([97%N], false, 10, 12); ([228; 184; 173; 239; 191; 189]%N, false, 12, 16); ([239; 191; 189]%N, true, 16, 16)].
Proof. vm_compute. reflexivity. Qed.

Print Assumptions C13_text_chunks_are_the_whole_buffer_decode.
