(* C13 -- character-encoding fidelity (partial).  Only statements, `exact` proofs and Print Assumptions. *)
From LolModel Require Import Base TextDecoder.
From LolModel Require Import Machine Selectors Rewriter StreamSink.
From LolProofs Require Import StreamSinkProof.
From LolProofs Require Import TextDecoderProof Utf8Decoder.
From Coq Require Import List.
Import ListNotations.
Open Scope nat_scope.

(* For EVERY streaming decoder that behaves like a whole-buffer decoder cut into pieces (decoder_laws: the assumed
   behaviour of encoding_rs' Decoder::decode_to_str for each of the 36 encodings, see the trusted base), every text node
   and every split of its bytes into lexemes (write boundaries anywhere, also inside a multi-byte character, any number
   of buffer refills): the strings the text handlers receive concatenate to the whole-buffer decode of the node's bytes
   (malformed sequences as the decoder's U+FFFD, an incomplete tail resolved at the end of the node), the chunk ranges
   tile the node exactly (C14's text clause), and exactly the final chunk is flagged last_in_text_node. *)
Theorem C13_text_chunks_are_the_whole_buffer_decode :
  forall (dstate A : Type) (dnew : dstate) ddecode valid_up_to (a0 : A) run fin abs,
  @decoder_laws dstate A dnew ddecode valid_up_to a0 run fin abs ->
  forall start p pieces,
  let cs := text_node dstate dnew ddecode valid_up_to (p :: pieces) start in
  texts cs = W A a0 run fin (concat (p :: pieces))
  /\ tiles cs start (start + length (concat (p :: pieces)))
  /\ exists body final, cs = body ++ [final] /\ none_last body /\ tc_last final = true.
Proof. exact (@text_node_correct). Qed.

(* the contract is satisfiable by the trivial codec ... *)
Example C13_laws_are_satisfiable :
  @decoder_laws unit unit tt (fun _ inp _ _ => (true, length inp, inp, tt)) (fun raw => length raw) tt (fun _ x => (x, tt)) (fun _ => []) (fun _ => tt).
Proof. exact identity_decoder_laws. Qed.
(* ... and by the executable UTF-8 decoder of the model (a byte-at-a-time transducer with U+FFFD for every malformed or
   truncated sequence, bounded output buffer): so for UTF-8 the statement is unconditional -- every split of a text node,
   at any byte, decodes to the whole-buffer decode u8_whole of its bytes *)
Theorem C13_utf8_decoder_meets_the_contract :
  @decoder_laws u8state u8state [] u8_decode u8_valid_up_to [] u8_run u8_fin (fun s => s).
Proof. exact utf8_decoder_laws. Qed.
Theorem C13_utf8_any_split_equals_whole_decode :
  forall start p pieces,
  let cs := utf8_text_node (p :: pieces) start in
  texts cs = u8_whole (concat (p :: pieces))
  /\ tiles cs start (start + length (concat (p :: pieces)))
  /\ exists body final, cs = body ++ [final] /\ none_last body /\ tc_last final = true.
Proof. exact utf8_text_node_any_split_equals_whole_decode. Qed.
(* ... and the executable UTF-8 instance used in the correspondence run decodes a character split over three writes,
   a malformed byte and a truncated tail as the whole-buffer decoder does, with tiling ranges *)
Example C13_utf8_instance_example :
  map (fun c => (tc_text c, tc_last c, tc_a c, tc_b c)) (utf8_text_node [[97; 228]; [184]; [173; 255; 195]]%N 10)
  = [([97%N], false, 10, 12); ([228; 184; 173; 239; 191; 189]%N, false, 12, 16); ([239; 191; 189]%N, true, 16, 16)].
Proof. vm_compute. reflexivity. Qed.

(* Content written by handlers as UTF-8 byte fragments (StreamingHandlerSink::write_utf8_chunk, IncompleteUtf8Resync): for EVERY
   way of cutting a valid UTF-8 string into fragments -- cuts inside characters, one-byte and empty fragments -- every write
   succeeds and what reaches the output is the string (escaped when the content type is Text), nothing lost, duplicated or
   reordered; and a write is refused only when its bytes do not continue the stream as valid UTF-8. *)
Theorem C13_utf8_fragments_written_to_a_sink_are_the_string :
  forall ct frags, from_utf8 (List.concat frags) = U8Ok ->
  exists outs, sink_run nil (map (fun f => SkUtf8 f ct) frags) = map (fun o => (true, o)) outs /\ List.concat outs = sk_emit ct (List.concat frags).
Proof. exact utf8_fragments_written_to_a_sink_are_the_string. Qed.
Theorem C13_sink_refuses_only_invalid_utf8 :
  forall st c ps, reach st -> write_chunk 3 st c nil = (None, ps) -> u8_adv st c = None.
Proof. exact write_fails_only_on_invalid. Qed.
Example C13_sink_example :
  sink_run nil (SkUtf8 (bs "a") CtText :: SkUtf8 (226 :: 130 :: nil)%N CtText :: SkUtf8 (172 :: 60 :: nil)%N CtText :: nil)
  = (true, bs "a") :: (true, nil) :: (true, (226 :: 130 :: 172 :: nil)%N ++ bs "&lt;") :: nil.
Proof. vm_compute. reflexivity. Qed.

Print Assumptions C13_text_chunks_are_the_whole_buffer_decode.
Print Assumptions C13_utf8_any_split_equals_whole_decode.
Print Assumptions C13_utf8_fragments_written_to_a_sink_are_the_string.
Print Assumptions C13_sink_refuses_only_invalid_utf8.
