(* C18 -- deterministic and isolated instances (partial).  Only statements, `exact`/computation proofs and Print Assumptions.
   The inventory LolGen.Globals is regenerated from src/ and c-api/src/ on every run by translator/translate.py
   (every `static`, `static mut`, `thread_local!`, `lazy_static!` item outside test code). *)
From LolGen Require Import Globals.
From Coq Require Import List String Bool.
Import ListNotations.
Open Scope string_scope.

(* the only per-thread mutable item the property allows: the C API's last-error slot *)
Definition allowed_thread_locals : list (string * string) := [("c-api/src/errors.rs", "LAST_ERROR")].
Definition global_ok (g : string * string * gkind) : bool :=
  match g with
  | (_, _, G_static_immutable) => true
  | (f, n, G_thread_local) => existsb (fun a => String.eqb (fst a) f && String.eqb (snd a) n) allowed_thread_locals
  | _ => false
  end.

(* No process-wide mutable state and no per-thread state besides the C API's last error: two rewriter instances can only
   share what the caller hands to both of them. *)
Theorem C18_no_shared_mutable_state : forallb global_ok globals = true.
Proof. vm_compute. reflexivity. Qed.
(* the C API error slot is per thread (so an error recorded on one thread cannot be seen or cleared by another) *)
Theorem C18_c_api_last_error_is_thread_local :
  existsb (fun g => match g with (f, n, G_thread_local) => String.eqb f "c-api/src/errors.rs" && String.eqb n "LAST_ERROR" | _ => false end) globals = true.
Proof. vm_compute. reflexivity. Qed.
(* non-vacuity: the inventory is not empty and the predicate does reject shared state *)
Example C18_predicate_rejects_shared_state :
  global_ok ("src/memory/arena.rs", "SPARE_BUFFERS", G_thread_local) = false /\ global_ok ("x.rs", "COUNTER", G_static_interior) = false /\ 3 <= List.length globals.
Proof. vm_compute. repeat split; repeat constructor. Qed.

Print Assumptions C18_no_shared_mutable_state.
Print Assumptions C18_c_api_last_error_is_thread_local.
