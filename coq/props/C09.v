(* C09 -- output latency (partial).  Only statements, `exact` proofs and Print Assumptions. *)
From LolModel Require Import Machine.
From LolProofs Require Import Tiling TableFacts Corollaries.
From LolProps Require Import C01.

(* For every observer controller and chunking: after successful writes the bytes held back are exactly the buffered
   tail of the input (sink ++ buffered = written); nothing else is ever withheld, and nothing is emitted twice. *)
Theorem C09_pending_is_the_buffered_tail :
  forall (C : Type) (ctl : controller C), observer ctl ->
  forall cfg c0 chunks r res,
    api_run ctl (new_rewriter ctl cfg c0) (map Write chunks) = (r, res) -> Forall (fun x => x = ROk) res ->
    sink_bytes (rw_sink r) ++ buffered (rw_stream r) = List.concat chunks
    /\ length (List.concat chunks) - length (sink_bytes (rw_sink r)) = length (buffered (rw_stream r)).
Proof. intros C ctl (H1 & H2 & _). exact (pending_is_buffered ctl H1 H2). Qed.
(* On the regenerated tokenizer table: no state that emits text at the end of a chunk can be entered with the tag
   scanner's tag-start mark still set (may-analysis, fixpoint checked), so in ordinary text the scanner holds nothing. *)
From LolProofs Require Import MarksAnalysis.
Theorem C09_text_states_hold_nothing : forallb (fun st => negb (has_eoc st && marked st)) all_states = true.
Proof. exact text_states_hold_nothing. Qed.
Theorem C09_marks_analysis_is_a_fixpoint : forallb (fun st => Bool.eqb (marked st) (join marked (step marked) st)) all_states = true.
Proof. exact marks_fixpoint. Qed.
(* NOT proved here: that the length of the buffered tail is a function of the prefix alone, and the per-state bounds
   for the tag scanner; exercised by correspondence (pending bytes after every write) and oracle_c09.
   Known finding RequestLexemePending. *)
Print Assumptions C09_pending_is_the_buffered_tail.
Print Assumptions C09_text_states_hold_nothing.
