(* C14 -- source locations (partial).  Only statements, `exact` proofs and Print Assumptions. *)
From LolModel Require Import Machine.
From LolProofs Require Import Corollaries.

(* Tokens carry absolute ranges: the range of a lexeme inside the current parse buffer shifted by the number of bytes
   consumed by earlier parse calls.  Read against the whole document (consumed prefix ++ buffer) it denotes exactly the
   lexeme's bytes -- for every prefix, buffer and range, i.e. independently of how the input was split. *)
Theorem C14_absolute_range_denotes_the_lexeme :
  forall (pre chunk : bytes) (r : range), rs r <= re r -> re r <= length chunk ->
    slice (pre ++ chunk) (abs_range (length pre) r) = slice chunk r.
Proof. exact slice_abs. Qed.
(* NOT proved here: monotonicity/disjointness of successive ranges and the attribute ranges as corollaries of the tiling
   invariant; exercised by correspondence (every source_location() value) and oracle_c14 (slices the original input). *)
Print Assumptions C14_absolute_range_denotes_the_lexeme.
