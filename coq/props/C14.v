(* C14 -- source locations (partial).  Only statements, `exact` proofs and Print Assumptions. *)
From LolModel Require Import Machine.
From LolModel Require Import Base TextDecoder.
From LolProofs Require Import Corollaries TextDecoderProof.
From Coq Require Import List.

(* Tokens carry absolute ranges: the range of a lexeme inside the current parse buffer shifted by the number of bytes
   consumed by earlier parse calls.  Read against the whole document (consumed prefix ++ buffer) it denotes exactly the
   lexeme's bytes -- for every prefix, buffer and range, i.e. independently of how the input was split. *)
Theorem C14_absolute_range_denotes_the_lexeme :
  forall (pre chunk : bytes) (r : range), rs r <= re r -> re r <= length chunk ->
    slice (pre ++ chunk) (abs_range (length pre) r) = slice chunk r.
Proof. exact slice_abs. Qed.
(* Text chunks: for every streaming decoder obeying decoder_laws, every text node and every split of it into lexemes, the
   ranges of the chunks handed to handlers are contiguous, start at the node's first byte and end at its last
   (bytes of a character that straddles a write boundary are attributed to the chunk that delivers the character). *)
Theorem C14_text_chunk_ranges_tile_their_node :
  forall (dstate A : Type) (dnew : dstate) ddecode valid_up_to (a0 : A) run fin abs,
  @decoder_laws dstate A dnew ddecode valid_up_to a0 run fin abs ->
  forall start p pieces,
  tiles (text_node dstate dnew ddecode valid_up_to (p :: pieces) start) start (start + length (concat (p :: pieces))).
Proof. exact (fun dstate A dnew ddecode v a0 run fin abs L start p pieces => proj1 (proj2 (text_node_correct dnew ddecode v a0 run fin abs L start p pieces))). Qed.
(* NOT proved here: monotonicity/disjointness of successive ranges and the attribute ranges as corollaries of the tiling
   invariant; exercised by correspondence (every source_location() value) and oracle_c14 (slices the original input). *)
Print Assumptions C14_absolute_range_denotes_the_lexeme.
Print Assumptions C14_text_chunk_ranges_tile_their_node.
