(* C10 -- memory limit.  Only statements, `exact` proofs and Print Assumptions. *)
From LolModel Require Import Machine Selectors Rewriter.
From LolProofs Require Import LimitMono.
From LolModel Require Import Selectors Rewriter.
From LolProofs Require Import Memory.

(* For every configuration (selectors, handlers of any kind, failure injection), every limit M that admits
   the preallocation, and every sequence of writes that all succeed: the memory the rewriter accounts for
   (parsing buffer + open-element stack) and the number of not-yet-emitted input bytes it retains are <= M. *)
Theorem C10_limit_after_successful_writes :
  forall (cfg : settings) (c0 : rwc) (chunks : list bytes),
    prealloc_fits rewrite_controller cfg c0 = true -> r_max c0 = st_max_mem cfg ->
    forall r res,
      api_run rewrite_controller (new_rewriter rewrite_controller cfg c0) (map Write chunks) = (r, res) ->
      Forall (fun x => x = ROk) res ->
      (accounted (rw_stream r) <= st_max_mem cfg)%N /\ (N.of_nat (retained (rw_stream r)) <= st_max_mem cfg)%N.
Proof. exact limit_holds_after_successful_writes. Qed.

(* one-step form: the invariant (buffer within capacity, capacity accounted, usage <= M) survives any successful write *)
Theorem C10_write_keeps_limit :
  forall s data s', Minv s -> write rewrite_controller s data = (s', COk) -> Minv s'.
Proof. exact write_keeps_limit. Qed.

(* the open-element stack is charged before it grows: a successful VM step never leaves usage above the limit *)
Theorem C10_stack_growth_is_charged :
  forall c ext ec M c' f, within ext c M -> finish_exec c ext ec = (c', FOk f) -> within ext c' M.
Proof. exact finish_exec_within. Qed.

(* non-vacuity: a run that stays within the limit and one that fails with MemoryLimitExceeded (not a panic) *)
Definition ex_sel : sel_handlers := mkSH [mkComplex [SAny] []] (Some []) None None.
Definition ex_cfg (m : N) : settings := mkSettings false m 0 false false 0.
Example C10_nonvacuous_ok :
  let c0 := new_rwc [ex_sel] [] [] None 104 2000 in
  let '(r, res) := api_run rewrite_controller (new_rewriter rewrite_controller (ex_cfg 2000) c0) [Write (bs "<a><b href='x"); Write (bs "y'>")] in
  res = [ROk; ROk] /\ accounted (rw_stream r) = 845%N /\ prealloc_fits rewrite_controller (ex_cfg 2000) c0 = true.
Proof. vm_compute. repeat split. Qed.
Example C10_nonvacuous_fail :
  let c0 := new_rwc [ex_sel] [] [] None 104 840 in
  snd (api_run rewrite_controller (new_rewriter rewrite_controller (ex_cfg 840) c0) [Write (bs "<a><b href='x"); Write (bs "y'>")])
  = [RErr MemoryLimitExceeded; RPanicPoisoned].
Proof. vm_compute. reflexivity. Qed.

(* Known finding (PreallocAboveLimit): when the preallocated parsing buffer does not fit the limit, construction
   succeeds in release builds with the accounted usage above the limit (debug builds trip a debug_assert!). *)
Example C10_prealloc_above_limit_refuted :
  let cfg := mkSettings false 10 1024 false false 0 in
  let c0 := new_rwc [] [] [] None 104 10 in
  prealloc_fits rewrite_controller cfg c0 = false /\ (accounted (new_stream rewrite_controller cfg c0) > st_max_mem cfg)%N.
Proof. vm_compute. split; reflexivity. Qed.

(* Monotonicity in the limit, at the two places where the limit is consulted (the parsing buffer and the open-element stack):
   what is granted under M is granted, with the same resulting state and the same accounting, under every M' >= M.
   (The lifting to whole runs -- "a run that succeeds under M succeeds identically under M'" -- is decided by the limit-sweep
   groups of the `mem` family, not proved.) *)
Theorem C10_buffer_growth_is_monotone_in_the_limit :
  forall a other M M' slice a', (M <= M')%N -> arena_append a other M slice = (a', true) -> arena_append a other M' slice = (a', true).
Proof. exact arena_append_mono. Qed.
Theorem C10_stack_growth_is_monotone_in_the_limit :
  forall s it isz mi other M M' s' ch, (M <= M')%N -> stack_push s it isz mi other M = (s', ch, true) -> stack_push s it isz mi other M' = (s', ch, true).
Proof. exact stack_push_mono. Qed.

Print Assumptions C10_limit_after_successful_writes.
Print Assumptions C10_write_keeps_limit.
Print Assumptions C10_stack_growth_is_charged.
Print Assumptions C10_buffer_growth_is_monotone_in_the_limit.
Print Assumptions C10_stack_growth_is_monotone_in_the_limit.
