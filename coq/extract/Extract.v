(* Extraction of the executable model to OCaml.  ExtrOcamlBasic only: bool, option, unit, list, prod,
   sumbool, sumor are mapped to OCaml's types; nat, N, positive, Z stay Coq datatypes. *)
From Coq Require Import Extraction ExtrOcamlBasic.
From LolModel Require Import Policy Rewriter TextDecoder StreamSink.
From LolSpec Require Import CssSem.
Extraction Language OCaml.
Extraction "model.ml" l1_case l2_case css_expected scope_expected utf8_node_calls sink_run.
