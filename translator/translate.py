#!/usr/bin/env python3
"""Translator: regenerates the data-like parts of the Coq model from /repo's working tree.

Purely syntactic.  Outputs (into OUT dir):
  StateTable.v  - the tokenizer state machine DSL (src/parser/state_machine/syntax/**) as a table
  TagTables.v   - Tag constants (src/html/tag.rs) and every tag list / single-tag test used by the
                  tree-builder simulator, ambiguity guard and void-element test, per function
  Constants.v   - numeric constants the model depends on
  Globals.v     - inventory of global mutable state items (static / thread_local / lazy ...)
Any construct the grammar below does not recognise aborts with exit status 3 ("broken tie").
"""
import re, sys, glob, os

REPO = sys.argv[1] if len(sys.argv) > 1 else '/repo'
OUT = sys.argv[2] if len(sys.argv) > 2 else '/verif/coq/gen'
SRC = os.path.join(REPO, 'src/parser/state_machine/syntax')

class Broken(Exception):
    pass

def die(msg):
    raise Broken(msg)

TOK = re.compile(r'''
    (?P<ws>\s+|//[^\n]*)
  | (?P<byte>b'(?:\\.|[^'\\])')
  | (?P<str>"[^"]*")
  | (?P<arrow>-->|<--|=>)
  | (?P<attr>\#\[[^\]]*\])
  | (?P<num>\d+)
  | (?P<ident>[A-Za-z_][A-Za-z0-9_]*!?)
  | (?P<punct>[{}()\[\];,=?])
''', re.X)

def lex(text):
    pos, out = 0, []
    while pos < len(text):
        m = TOK.match(text, pos)
        if not m: die(f'DSL lex error at {text[pos:pos+40]!r}')
        pos = m.end()
        k = m.lastgroup
        if k == 'ws': continue
        out.append((k, m.group()))
    return out

class P:
    def __init__(s, toks): s.t, s.i = toks, 0
    def peek(s, k=0): return s.t[s.i+k] if s.i+k < len(s.t) else (None, None)
    def eat(s, val=None, kind=None):
        k, v = s.peek()
        if (val is not None and v != val) or (kind is not None and k != kind):
            die(f'DSL parse error: expected {val or kind}, got {v!r} near {s.t[max(0,s.i-5):s.i+5]}')
        s.i += 1; return v
    def at(s, val): return s.peek()[1] == val

def byte_val(tok):
    body = tok[2:-1]
    esc = {'\\n':10,'\\r':13,'\\t':9,"\\'":39,'\\\\':92,'\\0':0}
    if body in esc: return esc[body]
    if body.startswith('\\x'): return int(body[2:],16)
    if len(body) != 1: die(f'bad byte literal {tok}')
    return ord(body)

def parse_file(text):
    p = P(lex(text)); groups = []
    while p.peek()[0] is not None:
        k, v = p.peek()
        if v == 'define_state_group!':
            p.eat(); p.eat('('); gname = p.eat(kind='ident'); p.eat('='); p.eat('{')
            states = []
            while not p.at('}'): states.append(parse_state(p))
            p.eat('}'); p.eat(')'); p.eat(';')
            groups.append((gname, states))
        elif k == 'attr' or v in ('mod',):
            p.eat()
            if v == 'mod': p.eat(kind='ident'); p.eat(';')
        else:
            die(f'unexpected top-level token {v!r}')
    return groups

def parse_state(p):
    attrs = []
    while p.peek()[0] == 'attr': attrs.append(p.eat())
    name = p.eat(kind='ident'); enter = []
    if p.at('<--'):
        p.eat(); p.eat('('); enter = parse_alist(p, ')'); p.eat(')')
    p.eat('{'); arms = []
    while not p.at('}'):
        pat = parse_pat(p); p.eat('=>'); p.eat('('); al = parse_alist(p, ')'); p.eat(')')
        arms.append((pat, al))
    p.eat('}')
    return dict(name=name, attrs=attrs, enter=enter, arms=arms)

def parse_pat(p):
    k, v = p.peek()
    if k == 'byte': p.eat(); return ('byte', byte_val(v))
    if v == '[':
        p.eat(); s = p.eat(kind='str')[1:-1]; ic = False
        if p.at(';'): p.eat(); p.eat('ignore_case'); ic = True
        p.eat(']'); return ('seq', s, ic)
    if v == 'memchr':
        p.eat(); p.eat('('); b = byte_val(p.eat(kind='byte')); p.eat(')'); return ('memchr', b)
    if v in ('alpha','whitespace','closing_quote','eoc','eof','_'):
        p.eat(); return (v,)
    die(f'bad pattern {v!r}')

def parse_alist(p, closer):
    if p.at('if'):
        p.eat(); cond = p.eat(kind='ident'); p.eat('('); t = parse_alist(p, ')'); p.eat(')')
        p.eat('else'); p.eat('('); e = parse_alist(p, ')'); p.eat(')')
        return ('if', cond, t, e)
    acts = []; tr = ('none',)
    while not p.at(closer):
        k, v = p.peek()
        if v == '-->':
            p.eat(); inline = False
            if p.peek()[0] == 'attr':
                a = p.eat()
                if 'inline' not in a: die(f'unknown transition attr {a}')
                inline = True
            if p.at('dyn'): p.eat(); tr = ('dyn', p.eat(kind='ident'))
            else: tr = ('goto', p.eat(kind='ident'), inline)
            break
        if v == 'reconsume':
            p.eat(); p.eat('in'); tr = ('reconsume', p.eat(kind='ident')); break
        name = p.eat(kind='ident'); fallible = False; args = []
        if p.at('?'): p.eat(); fallible = True
        while not p.at(';'):
            args.append(p.eat(kind='num'))
            if p.at(','): p.eat()
        p.eat(';')
        acts.append((name, fallible, args))
    return ('seq', acts, tr)

def gen_state_table():
    files = sorted(glob.glob(os.path.join(SRC, '**', '*.rs'), recursive=True))
    if not files: die('no syntax files found')
    states = []
    for f in files:
        for g, sts in parse_file(open(f).read()):
            for s in sts: s['group'] = g; s['file'] = os.path.relpath(f, SRC)
            states += sts
    names = [s['name'] for s in states]
    if len(set(names)) != len(names): die('duplicate state names')
    actions, conds, getters = set(), set(), set()
    def walk(al):
        if al[0] == 'if': conds.add(al[1]); walk(al[2]); walk(al[3])
        else:
            for (n, f, a) in al[1]: actions.add((n, len(a)))
            tr = al[2]
            if tr[0] == 'dyn': getters.add(tr[1])
            if tr[0] in ('goto','reconsume') and tr[1] not in names: die(f'unknown state {tr[1]}')
    for s in states:
        walk(s['enter'] if s['enter'] else ('seq', [], ('none',)))
        for _, al in s['arms']: walk(al)
    if getters - {'next_text_parsing_state'}: die(f'unknown dynamic state getter {getters}')
    out = []
    w = out.append
    w('(* GENERATED by translator/translate.py from src/parser/state_machine/syntax -- do not edit *)')
    w('From Coq Require Import List NArith. Import ListNotations. Open Scope N_scope.')
    w('Inductive state : Set :=\n' + '\n'.join('  | %s' % n for n in names) + '.')
    w('Inductive action : Set :=\n' + '\n'.join('  | A_%s%s' % (n, ' (n : nat)' * k) for (n, k) in sorted(actions)) + '.')
    w('Inductive cond : Set :=\n' + '\n'.join('  | C_%s' % c for c in sorted(conds)) + '.')
    w('Inductive transition : Set := T_none | T_goto (s : state) (inline : bool) | T_reconsume (s : state) | T_dyn_next_text_parsing_state.')
    w('Inductive alist : Set := AL (acts : list action) (tr : transition) | AL_if (c : cond) (t e : alist).')
    w('Inductive pat : Set := P_byte (b : N) | P_alpha | P_whitespace | P_closing_quote | P_any | P_eoc | P_eof | P_seq (bs : list N) (ignore_case : bool) | P_memchr (b : N).')
    w('Record state_def : Set := { sd_enter : list action; sd_arms : list (pat * alist) }.')
    def act(a):
        n, f, args = a
        return 'A_%s%s' % (n, ''.join(' %s%%nat' % x for x in args))
    def trs(tr):
        if tr[0] == 'none': return 'T_none'
        if tr[0] == 'goto': return 'T_goto %s %s' % (tr[1], 'true' if tr[2] else 'false')
        if tr[0] == 'reconsume': return 'T_reconsume %s' % tr[1]
        return 'T_dyn_next_text_parsing_state'
    def als(al):
        if al[0] == 'if': return '(AL_if C_%s %s %s)' % (al[1], als(al[2]), als(al[3]))
        return '(AL [%s] (%s))' % ('; '.join(act(a) for a in al[1]), trs(al[2]))
    def pats(p):
        k = p[0]
        if k == 'byte': return '(P_byte %d)' % p[1]
        if k == 'seq': return '(P_seq [%s] %s)' % ('; '.join(str(ord(c)) for c in p[1]), 'true' if p[2] else 'false')
        if k == 'memchr': return '(P_memchr %d)' % p[1]
        return {'alpha':'P_alpha','whitespace':'P_whitespace','closing_quote':'P_closing_quote','_':'P_any','eoc':'P_eoc','eof':'P_eof'}[k]
    w('Definition table (s : state) : state_def :=\n  match s with')
    for s in states:
        enter = s['enter'][1] if s['enter'] else []
        if s['enter'] and (s['enter'][0] != 'seq' or s['enter'][2] != ('none',)): die('enter actions with transition/if')
        w('  | %s => {| sd_enter := [%s];\n      sd_arms := [\n        %s ] |}' % (
            s['name'], '; '.join(act(a) for a in enter),
            ';\n        '.join('(%s, %s)' % (pats(p), als(al)) for p, al in s['arms'])))
    w('  end.')
    w('Definition all_states : list state := [%s].' % '; '.join(names))
    w('Definition state_eqb (a b : state) : bool :=\n  match a, b with\n' +
      '\n'.join('  | %s, %s => true' % (n, n) for n in names) + '\n  | _, _ => false\n  end.')
    w('Definition state_index (a : state) : nat :=\n  match a with\n' +
      '\n'.join('  | %s => %d' % (n, i) for i, n in enumerate(names)) + '\n  end.')
    return '\n'.join(out) + '\n', dict(states=len(states), actions=len(actions), conds=len(conds))

# ---------------------------------------------------------------------------------------------
def strip_comments(t):
    t = re.sub(r'//[^\n]*', '', t)
    return t

def gen_tag_tables():
    tag_rs = open(os.path.join(REPO, 'src/html/tag.rs')).read()
    m = re.search(r'declare_tags!\s*\{(.*?)\n\}', tag_rs, re.S)
    if not m: die('declare_tags! not found')
    tags = []
    for item in m.group(1).split(','):
        item = item.strip()
        if not item: continue
        mm = re.fullmatch(r'([A-Za-z0-9]+)\s*=\s*([0-9_]+)u64', item)
        if not mm: die(f'bad tag decl {item!r}')
        tags.append((mm.group(1), int(mm.group(2).replace('_', ''))))
    tagmap = dict(tags)
    out = ['(* GENERATED by translator/translate.py from src/html/tag.rs and users of tag_is_one_of! -- do not edit *)',
           'From Coq Require Import List NArith String. Import ListNotations. Open Scope N_scope.']
    for n, v in tags: out.append('Definition Tag_%s : N := %d.' % (n, v))
    out.append('Definition all_tags : list (string * N) := [%s].' % '; '.join('("%s"%%string, Tag_%s)' % (n.lower(), n) for n, _ in tags))

    def fn_bodies(path):
        """very small brace matcher: yields (fn_name, body_text) for every fn in file (tests excluded)"""
        text = strip_comments(open(path).read())
        cut = text.find('#[cfg(test)]')
        if cut >= 0: text = text[:cut]
        res = []
        for m in re.finditer(r'\bfn\s+([a-z_0-9]+)\s*(?:<[^>]*>)?\s*\(', text):
            i = text.find('{', m.end())
            if i < 0: continue
            depth, j = 0, i
            while j < len(text):
                if text[j] == '{': depth += 1
                elif text[j] == '}':
                    depth -= 1
                    if depth == 0: break
                j += 1
            res.append((m.group(1), text[i:j+1]))
        return text, res

    def tag_tests(body):
        """sequence, in source order, of ('list',[names]) for tag_is_one_of! and ('eq'|'ne', name) for == / != Tag::X"""
        evs = []
        for m in re.finditer(r'tag_is_one_of!\s*\(\s*[^,]+,\s*\[([^\]]*)\]\s*\)|(==|!=)\s*Tag::([A-Za-z0-9]+)', body):
            if m.group(1) is not None:
                names = [x.strip() for x in m.group(1).split(',') if x.strip()]
                if names == ['$($tag),+']: continue
                evs.append((m.start(), ('list', names)))
            else:
                evs.append((m.start(), ('eq' if m.group(2) == '==' else 'ne', m.group(3))))
        return [e for _, e in sorted(evs)]

    wanted = {
        'src/parser/tree_builder_simulator/mod.rs': ['get_text_type_adjustment', 'causes_foreign_content_exit',
            'is_text_integration_point_in_math_ml', 'is_html_integration_point_in_svg',
            'get_feedback_for_start_tag', 'should_leave_ns', 'get_feedback_for_start_tag_in_foreign_content'],
        'src/parser/tree_builder_simulator/ambiguity_guard.rs': ['track_start_tag', 'track_end_tag'],
        'src/selectors_vm/stack.rs': ['is_void_element'],
    }
    for rel, fns in wanted.items():
        text, bodies = fn_bodies(os.path.join(REPO, rel))
        bd = dict(bodies)
        for fn in fns:
            if fn not in bd: die(f'function {fn} not found in {rel}')
            evs = tag_tests(bd[fn])
            items = []
            for e in evs:
                names = e[1] if e[0] == 'list' else [e[1]]
                for n in names:
                    if n not in tagmap: die(f'unknown tag {n} in {fn}')
                kind = {'list': 'TT_list', 'eq': 'TT_eq', 'ne': 'TT_ne'}[e[0]]
                items.append('%s [%s]' % (kind, '; '.join('Tag_' + n for n in names)))
            out.append('(* %s :: %s *)' % (rel, fn))
            out.append('Definition tt_%s : list tag_test := [%s].' % (fn, ';\n    '.join(items)))
        if rel.endswith('ambiguity_guard.rs'):
            m = re.search(r'create_assert_for_tags!\s*\(\s*([^)]*)\)\s*;', text)
            if not m: die('create_assert_for_tags! invocation not found')
            names = [x.strip() for x in m.group(1).split(',') if x.strip()]
            for n in names:
                if n not in tagmap: die(f'unknown tag {n}')
            out.append('Definition tt_assert_not_ambiguous : list N := [%s].' % '; '.join('Tag_' + n for n in names))
    # tag_test type must precede its uses
    hdr = 'Inductive tag_test : Set := TT_list (l : list N) | TT_eq (l : list N) | TT_ne (l : list N).'
    out.insert(2, hdr)
    return '\n'.join(out) + '\n', dict(tags=len(tags))

SOFT_NOTES = []
def gen_constants():
    out = ['(* GENERATED by translator/translate.py -- numeric constants read from the source *)',
           'From Coq Require Import NArith. Open Scope N_scope.']
    def grab(rel, pat, name, conv=lambda m: int(m.group(1).replace('_', ''))):
        text = strip_comments(open(os.path.join(REPO, rel)).read())
        m = re.search(pat, text)
        if not m: die(f'constant {name} not found in {rel}')
        out.append('Definition %s : N := %d. (* %s *)' % (name, conv(m), rel))
    grab('src/rewritable_units/text_decoder.rs', r'DEFAULT_BUFFER_LEN:\s*usize\s*=\s*if cfg!\(test\)\s*\{\s*\d+\s*\}\s*else\s*\{\s*(\d+)\s*\}', 'TEXT_DECODER_BUFFER_LEN')
    grab('src/memory/limited_vec.rs', r'let items = (\d+) / size_of::<T>\(\);', 'LIMITED_VEC_MIN_BYTES')
    grab('src/memory/limited_vec.rs', r'if items >= (\d+) \{ items \} else \{ \d+ \}', 'LIMITED_VEC_MIN_ITEMS')
    grab('src/html/local_name.rs', r'h >> \(64 - (\d+)\) == 0', 'HASH_BITS_PER_CHAR')
    grab('src/html/local_name.rs', r"b'a'..=b'z' \| b'A'..=b'Z' => \(h << 5\) \| \(\(u64::from\(ch\) & 0x1F\) \+ (\d+)\)", 'HASH_ALPHA_OFFSET')
    # the digit arm of LocalNameHash::update: with or without the "not as first character" guard
    text = strip_comments(open(os.path.join(REPO, 'src/html/local_name.rs')).read())
    m = re.search(r"b'1'..=b'6'( if h != 0)? => \(h << 5\) \| \(\(u64::from\(ch\) & 0x0F\) - 1\)", text)
    if not m: die('digit arm of LocalNameHash::update not recognised')
    out.append('Definition HASH_DIGIT_NEEDS_PREFIX : bool := %s. (* src/html/local_name.rs *)' % ('true' if m.group(1) else 'false'))
    # Definitions below are "soft": when the source no longer has the recognised shape (a refactoring), the value pinned at the
    # last successful translation is kept and the correspondence run (scripts with refused names / comment texts, nth selectors)
    # decides whether behaviour changed; the note is printed so that the evidence records it.
    PINNED = os.path.join(os.path.dirname(os.path.abspath(OUT.rstrip('/'))), 'pinned', 'Constants.v')
    def soft(names, fn):
        try: fn()
        except Broken as e:
            pinned = open(PINNED).read() if os.path.exists(PINNED) else ''
            for nm in names:
                m = re.search(r'^Definition %s .*$' % nm, pinned, re.M)
                if not m: raise
                out.append(m.group(0))
            SOFT_NOTES.append('%s: %s -- pinned value kept' % (', '.join(names), e))
    # the setters' validators: forbidden bytes of names, closing shapes of comment text
    def byte_set(rel, fn_name, name):
        text = strip_comments(open(os.path.join(REPO, rel)).read())
        i = text.find('fn ' + fn_name)
        if i < 0: die(f'{fn_name} not found in {rel}')
        body = text[i:i + 2500]
        j = body.find('\n    }\n')
        if j > 0: body = body[:j]
        ms = re.findall(r"matches!\(\s*ch,\s*((?:b'(?:\\x[0-9A-Fa-f]{2}|\\.|[^'\\])'\s*\|?\s*)+)\)", body)
        if len(ms) != 1: die(f'{fn_name}: expected exactly one matches!(ch, ...) byte set, found {len(ms)}')
        vals = [byte_val(t) for t in re.findall(r"b'(?:\\x[0-9A-Fa-f]{2}|\\.|[^'\\])'", ms[0])]
        out.append('Definition %s : list N := [%s]. (* %s, fn %s *)' % (name, '; '.join(str(v) for v in vals), rel, fn_name))
    out.insert(2, 'From Coq Require Import List. Import ListNotations.')
    soft(['ATTR_NAME_FORBIDDEN'], lambda: byte_set('src/rewritable_units/tokens/attributes.rs', 'name_from_string', 'ATTR_NAME_FORBIDDEN'))
    soft(['TAG_NAME_FORBIDDEN'], lambda: byte_set('src/rewritable_units/element.rs', 'tag_name_bytes_from_str', 'TAG_NAME_FORBIDDEN'))
    def comment_shapes():
        text = strip_comments(open(os.path.join(REPO, 'src/rewritable_units/tokens/comment.rs')).read())
        m = re.search(r'fn contains_comment_closing_sequence\(text: &str\) -> bool \{(.*?)\n\}', text, re.S)
        if not m: die('contains_comment_closing_sequence not recognised')
        body = m.group(1).strip()
        terms = [t.strip() for t in body.split('||')]
        infix, prefix = [], []
        for t in terms:
            mm = re.fullmatch(r'text\.(contains|starts_with)\(("([^"\\]*)"|\'([^\'\\])\')\)', t)
            if not mm: die('contains_comment_closing_sequence: unrecognised term ' + t)
            lit = mm.group(3) if mm.group(3) is not None else mm.group(4)
            (infix if mm.group(1) == 'contains' else prefix).append('[' + '; '.join(str(ord(c)) for c in lit) + ']')
        out.append('Definition COMMENT_BAD_INFIX : list (list N) := [%s]. (* src/rewritable_units/tokens/comment.rs *)' % '; '.join(infix))
        out.append('Definition COMMENT_BAD_PREFIX : list (list N) := [%s].' % '; '.join(prefix))
    soft(['COMMENT_BAD_INFIX', 'COMMENT_BAD_PREFIX'], comment_shapes)
    # NthChild::has_index: the difference index - offset in i64 (exact) or with wrapping i32 arithmetic
    def has_index_arith():
        text = strip_comments(open(os.path.join(REPO, 'src/selectors_vm/ast.rs')).read())
        m = re.search(r'pub const fn has_index\(self, index: i32\) -> bool \{(.*?)\n    \}', text, re.S)
        if not m: die('NthChild::has_index not found')
        body = re.sub(r'\s+', ' ', m.group(1))
        if 'let offsetted = index as i64 - offset as i64; let step = step as i64;' in body and 'offsetted.wrapping_rem(step) == 0' in body: wide = 'true'
        elif 'let offsetted = index.wrapping_sub(offset);' in body and 'offsetted.wrapping_rem(step) == 0' in body: wide = 'false'
        else: die('NthChild::has_index: arithmetic not recognised')
        if 'if step == 0 { offsetted == 0 } else if (offsetted < 0 && step > 0) || (offsetted > 0 && step < 0) { false } else {' not in body: die('NthChild::has_index: case analysis not recognised')
        out.append('Definition HAS_INDEX_WIDE : bool := %s. (* src/selectors_vm/ast.rs, NthChild::has_index *)' % wide)
    soft(['HAS_INDEX_WIDE'], has_index_arith)
    grab('src/rewriter/settings.rs', r'preallocated_parsing_buffer_size:\s*(\d+)', 'DEFAULT_PREALLOC')
    grab('src/parser/tree_builder_simulator/mod.rs', r'DEFAULT_NS_STACK_CAPACITY:\s*usize\s*=\s*(\d+)', 'DEFAULT_NS_STACK_CAPACITY')
    # TokenCaptureFlags bits
    text = open(os.path.join(REPO, 'src/rewritable_units/tokens/capturer/mod.rs')).read()
    for nm in ['TEXT', 'COMMENTS', 'NEXT_START_TAG', 'NEXT_END_TAG', 'DOCTYPES']:
        m = re.search(r'const %s\s*=\s*0b([01_]+);' % nm, text)
        if not m: die(f'capture flag {nm} not found')
        out.append('Definition FLAG_%s : N := %d.' % (nm, int(m.group(1).replace('_', ''), 2)))
    return '\n'.join(out) + '\n', {}

def gen_globals():
    items = []
    for root in ['src', 'c-api/src']:
        for f in sorted(glob.glob(os.path.join(REPO, root, '**', '*.rs'), recursive=True)):
            rel = os.path.relpath(f, REPO)
            text = strip_comments(open(f).read())
            in_test = text.find('#[cfg(test)]\nmod tests')
            body = text if in_test < 0 else text[:in_test]
            if '/tests' in rel or rel.endswith('tests.rs'): continue
            for m in re.finditer(r'thread_local!\s*[\{\(]\s*(?:pub\s+)?static\s+([A-Z_0-9a-z]+)', body):
                items.append((rel, m.group(1), 'G_thread_local'))
            body = re.sub(r'thread_local!\s*[\{\(]\s*(?:pub\s+)?static\s+', 'thread_local_item ', body)
            body = re.sub(r'#\[cfg\(test\)\]\s*(pub(?:\([a-z]+\))?\s+)?static\s+', 'cfg_test_item ', body)
            for m in re.finditer(r'^\s*(pub(?:\([a-z]+\))?\s+)?static\s+(mut\s+)?([A-Z_0-9a-z]+)\s*:\s*([^=]+)=', body, re.M):
                ty = m.group(4).strip()
                kind = 'G_static_mut' if m.group(2) else ('G_static_interior' if re.search(r'Mutex|RwLock|Atomic|Cell|OnceLock|OnceCell|Lazy', ty) else 'G_static_immutable')
                items.append((rel, m.group(3), kind))
            for m in re.finditer(r'lazy_static!\s*[\{\(]', body):
                items.append((rel, 'lazy_static', 'G_static_interior'))
    out = ['(* GENERATED by translator/translate.py -- inventory of global state items in src/ and c-api/src/ *)',
           'From Coq Require Import List String. Import ListNotations. Open Scope string_scope.',
           'Inductive gkind : Set := G_static_immutable | G_static_interior | G_static_mut | G_thread_local.',
           'Definition globals : list (string * string * gkind) := [%s].' % ';\n  '.join('("%s", "%s", %s)' % i for i in items)]
    return '\n'.join(out) + '\n', dict(globals=len(items))

def gen_capi():
    """inventory of the exported C entry points: for each `extern "C" fn` whether its body runs under catch_panic, whether it
    reports failures through the last-error slot (unwrap_or_ret*), and whether it is an expression-macro generated mutator"""
    items = []
    for f in sorted(glob.glob(os.path.join(REPO, 'c-api/src', '*.rs'))):
        rel = os.path.relpath(f, REPO)
        text = strip_comments(open(f).read())
        for m in re.finditer(r'pub (?:unsafe )?extern "C" fn (\w+)\s*(?:<[^>]*>)?\s*\(', text):
            name = m.group(1)
            # body = up to the matching closing brace of the function
            i = text.index('{', m.end()); depth = 0; j = i
            while True:
                if text[j] == '{': depth += 1
                elif text[j] == '}':
                    depth -= 1
                    if depth == 0: break
                j += 1
            body = text[i:j + 1]
            if name.startswith('$'): continue
            items.append((rel, name, 'catch_panic' in body, bool(re.search(r'unwrap_or_ret\w*!', body)), bool(re.search(r'\.expect\(|assert', body))))
    if not any(n == 'lol_html_rewriter_write' for _, n, *_ in items): die('c-api entry points not recognised')
    out = ['(* GENERATED by translator/translate.py -- exported C entry points of c-api/src (functions written out by hand; the macro-generated',
           '   content mutators share one body) : (file, name, runs under catch_panic, reports through last error, has expect/assert) *)',
           'From Coq Require Import List String Bool. Import ListNotations. Open Scope string_scope.',
           'Definition c_entry_points : list (string * string * bool * bool * bool) := [%s].' % ';\n  '.join('("%s", "%s", %s, %s, %s)' % (a, b, str(c).lower(), str(d).lower(), str(e).lower()) for a, b, c, d, e in items)]
    return '\n'.join(out) + '\n', dict(c_entry_points=len(items))

def main():
    os.makedirs(OUT, exist_ok=True)
    try:
        stats = {}
        for name, fn in [('StateTable.v', gen_state_table), ('TagTables.v', gen_tag_tables), ('Constants.v', gen_constants), ('Globals.v', gen_globals), ('CApi.v', gen_capi)]:
            text, st = fn()
            path = os.path.join(OUT, name)
            old = open(path).read() if os.path.exists(path) else None
            if old != text:
                open(path, 'w').write(text)
            stats.update(st)
        print('translate ok', stats)
        for n in SOFT_NOTES: print('translate note:', n)
    except Broken as e:
        print('TRANSLATOR-BROKEN:', e)
        sys.exit(3)

main()
