//! Level 3 (property C13): the real HtmlRewriter in any of the 36 ASCII-compatible encodings.  The strings the
//! handlers read are compared *here* with encoding_rs' whole-buffer decode of the token's input bytes, the sink bytes
//! with encoding_rs' encode of the re-serialised text / inserted content, and the set_encoding calls with the
//! position of the first effective <meta charset>.  Verdict lines: `X c13-bad <what>` / `X c13-stats k=v ...`.
use crate::util::*;
use encoding_rs::Encoding;
use lol_html::html_content::{Comment, ContentType, Element, TextChunk};
use lol_html::{AsciiCompatibleEncoding, DocumentContentHandlers, ElementContentHandlers, HtmlRewriter, OutputSink, Selector, Settings};
use std::borrow::Cow;
use std::cell::RefCell;
use std::panic::{catch_unwind, AssertUnwindSafe};
use std::rc::Rc;

#[derive(Default)]
struct Obs {
    text: Vec<(String, bool, usize, usize)>,                       // chunk, last, a, b
    comments: Vec<(String, usize, usize)>,
    tags: Vec<(String, Vec<(String, String, Option<(usize, usize)>, Option<(usize, usize)>, String, bool, Option<String>)>, usize, usize, String)>,   // attrs: name, value, name loc, value loc, name(), has_attribute(name()), get_attribute(name())
    sink: Vec<(Option<&'static Encoding>, Vec<u8>)>,               // set_encoding(e) | chunk
    probes: Vec<(usize, bool, bool)>,
    not_unencodable: usize,                                        // elements matched by :not(<a type name no element has>)
    is_unencodable: usize,                                         // elements matched by that type name itself                              // element start, has_attribute("naïve") before and after the other lookups
}
struct Sink(Rc<RefCell<Obs>>);
impl OutputSink for Sink {
    fn handle_chunk(&mut self, c: &[u8]) { self.0.borrow_mut().sink.push((None, c.to_vec())); }
    fn set_encoding(&mut self, e: AsciiCompatibleEncoding) { let enc: &'static Encoding = e.into(); self.0.borrow_mut().sink.push((Some(enc), vec![])); }
}
/// ranges of every non-text token (tags, comments, doctypes) from the real tokenizer in one write with text capture off;
/// the gaps between them are the text nodes, independently of what text chunks report about themselves
fn non_text_token_ranges(input: &[u8], enc: &'static Encoding) -> Vec<(usize, usize)> {
    use lol_html::{LocalName, Namespace, SharedMemoryLimiter, StartTagHandlingResult, Token, TokenCaptureFlags, TransformController, TransformStream, TransformStreamSettings};
    struct Ctl(Rc<RefCell<Vec<(usize, usize)>>>);
    fn flags() -> TokenCaptureFlags { TokenCaptureFlags::COMMENTS | TokenCaptureFlags::NEXT_START_TAG | TokenCaptureFlags::NEXT_END_TAG | TokenCaptureFlags::DOCTYPES }
    impl TransformController for Ctl {
        fn initial_capture_flags(&self) -> TokenCaptureFlags { flags() }
        fn handle_start_tag(&mut self, _: LocalName<'_>, _: Namespace) -> StartTagHandlingResult<Self> { Ok(flags()) }
        fn handle_end_tag(&mut self, _: LocalName<'_>) -> TokenCaptureFlags { flags() }
        fn handle_token(&mut self, token: &mut Token<'_>) -> Result<(), lol_html::errors::RewritingError> {
            let r = match token { Token::StartTag(t) => t.source_location(), Token::EndTag(t) => t.source_location(), Token::Comment(t) => t.source_location(),
                                  Token::Doctype(t) => t.source_location(), Token::TextChunk(t) => t.source_location() }.bytes();
            if !matches!(token, Token::TextChunk(_)) { self.0.borrow_mut().push((r.start, r.end)); }
            Ok(())
        }
        fn handle_end(&mut self, _: &mut lol_html::html_content::DocumentEnd<'_>) -> Result<(), lol_html::errors::RewritingError> { Ok(()) }
        fn should_emit_content(&self) -> bool { true }
        fn handle_bail_out(&mut self, _: &lol_html::errors::RewritingError, _: &mut lol_html::html_content::BailOut<'_>) {}
    }
    let out = Rc::new(RefCell::new(vec![]));
    let mut ts = TransformStream::new(TransformStreamSettings {
        transform_controller: Ctl(out.clone()), output_sink: |_: &[u8]| {}, preallocated_parsing_buffer_size: 0,
        memory_limiter: SharedMemoryLimiter::new(1 << 30), encoding: AsciiCompatibleEncoding::new(enc).unwrap(), next_encoding: Default::default(),
        strict: false, graceful_bail_out_on_memory_limit_exceeded: false, graceful_bail_out_on_content_handler_error: false });
    let _ = ts.write(input); let _ = ts.end();
    let v = out.borrow().clone(); v
}
fn rng(l: lol_html::html_content::SourceLocation) -> (usize, usize) { let r = l.bytes(); (r.start, r.end) }

pub fn run_case(line: &str) {
    let m = kv(line);
    let id = line.split(' ').nth(1).unwrap();
    outln!("C {id}");
    let encs = &lol_html::test_utils::ASCII_COMPATIBLE_ENCODINGS;
    let enc0: &'static Encoding = encs[geti(&m, "enc", 23) % encs.len()];
    let meta = getb(&m, "meta");
    let sparse = getb(&m, "sparse");
    let medit = geti(&m, "medit", 0);
    let ins: Option<String> = m.get("ins").filter(|v| v.as_str() != "-").map(|v| String::from_utf8(unhex(v)).unwrap());
    let endins: Option<String> = m.get("endins").filter(|v| v.as_str() != "-").map(|v| String::from_utf8(unhex(v)).unwrap());
    let ops = parse_ops(m.get("ops").map(|s| s.as_str()).unwrap_or("E"));
    let input: Vec<u8> = ops.iter().flat_map(|o| match o { Op::Write(d) => d.clone(), Op::End => vec![] }).collect();
    let obs = Rc::new(RefCell::new(Obs::default()));
    let (o1, o2, o3) = (obs.clone(), obs.clone(), obs.clone());
    let ins2 = ins.clone();
    let settings = Settings::new()
        .append_element_content_handler((Cow::Owned("*".parse::<Selector>().unwrap()), ElementContentHandlers::default().element(move |e: &mut Element<'_, '_>| {
            let (a, b) = rng(e.source_location());
            let mut attrs: Vec<(String, String, Option<(usize, usize)>, Option<(usize, usize)>, String, bool, Option<String>)> =
                e.attributes().iter().map(|x| (x.name_preserve_case(), x.value(), x.name_source_location().map(rng), x.value_source_location().map(rng), x.name(), false, None)).collect();
            let p1 = e.has_attribute("na\u{ef}ve");
            for at in attrs.iter_mut() { at.5 = e.has_attribute(&at.4); at.6 = e.get_attribute(&at.4); }
            let p2 = e.has_attribute("na\u{ef}ve");
            o1.borrow_mut().probes.push((a, p1, p2));
            o1.borrow_mut().tags.push((e.tag_name_preserve_case(), attrs, a, b, e.tag_name()));
            if let Some(s) = &ins2 { e.before(s, ContentType::Html); }
            // medit: a user handler rewrites the declaration attributes of <meta> (a transcoding set-up). The declaration of the INPUT decides the
            // encoding (the built-in detector runs before user handlers), whatever the handler leaves in the tag
            if medit != 0 && e.tag_name() == "meta" {
                match medit {
                    1 => { let _ = e.set_attribute("charset", "utf-8"); }
                    2 => { e.remove_attribute("charset"); e.remove_attribute("content"); }
                    3 => { let _ = e.set_attribute("charset", "windows-1251"); }
                    // the handler fails: the write fails; nothing of this rewriter may be seen by the next one on the thread (C18)
                    9 => { return Err("meta handler failed".into()); }
                    _ => { let _ = e.set_attribute("http-equiv", "content-type"); let _ = e.set_attribute("content", "text/html; charset=koi8-r"); }
                }
            }
            Ok(())
        })))
        // a type selector whose name most encodings cannot represent: no element has that name, so :not(name) matches every element (C04)
        .append_element_content_handler((Cow::Owned(":not(\u{65e5}\u{672c}\u{194})".parse::<Selector>().unwrap()), ElementContentHandlers::default().element({ let o = obs.clone(); move |_e: &mut Element<'_, '_>| { o.borrow_mut().not_unencodable += 1; Ok(()) } })))
        .append_element_content_handler((Cow::Owned("\u{65e5}\u{672c}\u{194}".parse::<Selector>().unwrap()), ElementContentHandlers::default().element({ let o = obs.clone(); move |_e: &mut Element<'_, '_>| { o.borrow_mut().is_unencodable += 1; Ok(()) } })))
        .append_document_content_handler({
            // sparse=1: no text / comment handlers, so that nothing is lexed between tags (encoding switches must not wait for a token)
            let mut d = DocumentContentHandlers::default();
            if !sparse {
                d = d.text(move |t: &mut TextChunk<'_>| { let (a, b) = rng(t.source_location()); o2.borrow_mut().text.push((t.as_str().to_string(), t.last_in_text_node(), a, b)); Ok(()) })
                     .comments(move |c: &mut Comment<'_>| { let (a, b) = rng(c.source_location()); o3.borrow_mut().comments.push((c.text().to_string(), a, b)); Ok(()) });
            }
            d.end({ let e2 = endins.clone(); move |e: &mut lol_html::html_content::DocumentEnd<'_>| { if let Some(s) = &e2 { e.append(s, ContentType::Html); } Ok(()) } })
        })
        .with_encoding(AsciiCompatibleEncoding::new(enc0).unwrap())
        .with_adjust_charset_on_meta_tag(meta);
    let mut rw = Some(HtmlRewriter::new(settings, Sink(obs.clone())));
    let mut all_ok = true;
    for (k, op) in ops.iter().enumerate() {
        let res = match rw.take() {
            None => "use-after-end".to_string(),
            Some(mut r) => {
                let out = match op {
                    Op::Write(d) => { let o = catch_unwind(AssertUnwindSafe(|| r.write(d))); rw = Some(r); o }
                    Op::End => catch_unwind(AssertUnwindSafe(move || r.end())),
                };
                match out {
                    Ok(Ok(())) => "ok".to_string(),
                    Ok(Err(e)) => err_str(&e).to_string(),
                    // (a panic on a call made after an earlier call failed is the documented refusal of a poisoned rewriter)
                    Err(_) if !all_ok => "panic:poisoned".to_string(),
                    Err(p) => format!("panic:impl {}", p.downcast_ref::<String>().cloned().or_else(|| p.downcast_ref::<&str>().map(|s| s.to_string())).unwrap_or_default().replace('\n', " ")),
                }
            }
        };
        if res != "ok" { all_ok = false; }
        outln!("R {k} {res}");
    }
    drop(rw);
    let o = obs.borrow();
    let mut bad: Vec<String> = vec![];
    let mut bad16: Vec<String> = vec![];       // by-name attribute lookups (property C16; also exposes state shared between rewriters, C18)
    let mut bad14: Vec<String> = vec![];       // text chunk ranges (property C14); a node with broken ranges is not used for the C13 comparisons
    if !all_ok && medit != 9 { bad.push("a call failed or panicked".into()); }
    // ---- the encoding in force at an input offset: enc0 until the end of the first effective <meta charset> start tag
    let mut switch: Option<(usize, &'static Encoding)> = None;
    if meta {
        for (name, attrs, _a, b, _) in &o.tags {
            if !name.eq_ignore_ascii_case("meta") { continue; }
            let get = |n: &str| attrs.iter().find(|x| x.0.eq_ignore_ascii_case(n)).map(|x| x.1.clone());
            // <meta charset=label>, else <meta http-equiv=content-type content="...; charset=label">; only ASCII-compatible encodings count
            let mut label: Option<String> = get("charset").filter(|l| Encoding::for_label_no_replacement(l.as_bytes()).is_some_and(|e| AsciiCompatibleEncoding::new(e).is_some()));
            if label.is_none() && get("http-equiv").is_some_and(|h| h.eq_ignore_ascii_case("content-type")) {
                if let Some(c) = get("content") {
                    let lc = c.to_ascii_lowercase();
                    if let Some(p) = lc.find("charset=") { label = Some(c[p + 8..].split(|ch: char| ch == ';' || ch.is_ascii_whitespace()).next().unwrap_or("").trim_matches(|ch| ch == '"' || ch == '\'').to_string()); }
                }
            }
            if let Some(l) = label {
                if let Some(e) = Encoding::for_label_no_replacement(l.as_bytes()).filter(|e| AsciiCompatibleEncoding::new(e).is_some()) { switch = Some((*b, e)); break; }
            }
        }
    }
    let unsure = matches!(switch, Some((usize::MAX, _)));
    let enc_at = |pos: usize| -> &'static Encoding { match switch { Some((p, e)) if pos >= p => e, _ => enc0 } };
    let dec = |pos: usize, a: usize, b: usize| -> String { enc_at(pos).decode_without_bom_handling(&input[a.min(input.len())..b.min(input.len())]).0.into_owned() };
    let (mut n_nodes, mut n_chunks, mut n_long, mut n_nonascii, mut n_malformed) = (0usize, 0usize, 0usize, 0usize, 0usize);
    // ---- text nodes
    let mut expected_out: Vec<u8> = vec![];
    let mut events: Vec<(usize, usize, Vec<u8>)> = vec![];      // (a, b, replacement bytes) in document order
    if !unsure && all_ok {
        // text nodes = the non-empty gaps between the non-text tokens of the document
        let toks = non_text_token_ranges(&input, enc0);
        let mut gaps: Vec<(usize, usize)> = vec![];
        let mut cur = 0usize;
        for (a, b) in toks.iter().chain(std::iter::once(&(input.len(), input.len()))) { if *a > cur { gaps.push((cur, *a)); } cur = (*b).max(cur); }
        let mut i = 0;
        if sparse { gaps.clear(); }      // no text handler: text is not captured, it passes through as raw bytes
        for (start, end) in gaps {
            let mut s = String::new();
            let mut prev_end = start;
            let mut node_ranges_ok = true;
            let mut got_last = false;
            while i < o.text.len() {
                let (t, last, a, b) = &o.text[i];
                if *a != prev_end || *b < *a || *b > end { if node_ranges_ok { bad14.push(format!("text node {start}..{end}: chunk reported at {a}..{b} after {prev_end} (ranges must be contiguous, inside the node and cover it)")); } node_ranges_ok = false; }
                prev_end = *b; s.push_str(t); n_chunks += 1; i += 1;
                if *last { got_last = true; break; }
            }
            if !got_last { bad.push(format!("text node {start}..{end}: no chunk with last_in_text_node (or no chunk at all)")); continue; }
            if node_ranges_ok && prev_end != end { bad14.push(format!("text node {start}..{end}: chunk ranges end at {prev_end}")); }
            let reference = dec(start, start, end);
            n_nodes += 1;
            if end - start > 1024 { n_long += 1; }
            if !input[start..end].is_ascii() { n_nonascii += 1; }
            if reference.contains('\u{FFFD}') { n_malformed += 1; }
            if s != reference {
                bad.push(format!("text node {start}..{end} ({}): handlers read {:?}, whole-buffer decode is {:?}", enc_at(start).name(), trunc(&s), trunc(&reference)));
            }
            events.push((start, end, enc_at(start).encode(&reference).0.into_owned()));
        }
        if i < o.text.len() { bad.push(format!("{} text chunks beyond the text nodes of the document", o.text.len() - i)); }
        // ---- comments
        for (t, a, b) in &o.comments {
            if *b <= input.len() && b - a >= 7 && &input[*a..a + 4] == b"<!--" && &input[b - 3..*b] == b"-->" {
                let reference = dec(*a, a + 4, b - 3);
                if *t != reference { bad.push(format!("comment {a}..{b}: text() = {:?}, decode of its bytes = {:?}", trunc(t), trunc(&reference))); }
            }
        }
        // ---- tag names and attributes
        for (name, attrs, a, b, lname) in &o.tags {
            if *b > input.len() { continue; }
            if *lname != name.to_ascii_lowercase() { bad.push(format!("tag at {a}: tag_name() = {:?} is not the ASCII-lowercased tag_name_preserve_case() {:?}", trunc(lname), trunc(name))); }
            let mut k = a + 1;
            while k < *b && !matches!(input[k], b'\t' | b'\n' | 0x0c | b'\r' | b' ' | b'/' | b'>') { k += 1; }
            let reference = dec(*a, a + 1, k);
            if *name != reference { bad.push(format!("tag at {a}: tag_name_preserve_case() = {:?}, decode of its bytes = {:?}", trunc(name), trunc(&reference))); }
            for (an, _av, nl, _vl, aln, has, got) in attrs {
                // by-name lookup of a listed attribute whose name round-trips through the encoding in force (validator-refused names skipped)
                if let Some((x, y)) = nl {
                    let raw = &input[(*x).min(input.len())..(*y).min(input.len())];
                    let ok_chars = !aln.is_empty() && !aln.chars().any(|c| matches!(c, ' ' | '\t' | '\n' | '\r' | '\u{c}' | '/' | '>' | '=' | '\u{fffd}'));
                    if ok_chars && enc_at(*a).encode(an).0.as_ref() == raw {
                        let first = attrs.iter().find(|t| t.4 == *aln).map(|t| t.1.clone());
                        if !*has || *got != first { bad16.push(format!("attribute {:?} at {x}..{y} is listed but has_attribute = {has} and get_attribute = {:?} (first listed value {:?})", trunc(an), got.as_ref().map(|g| trunc(g)), first.as_ref().map(|g| trunc(g)))); }
                    }
                }
            }
            if let Some((_, p1, p2)) = o.probes.iter().find(|p| p.0 == *a) {
                let present = attrs.iter().any(|t| t.4 == "na\u{ef}ve" && t.2.is_some_and(|(x, y)| enc_at(*a).encode(&t.0).0.as_ref() == &input[x.min(input.len())..y.min(input.len())]));
                let ambiguous = attrs.iter().any(|t| t.4 == "na\u{ef}ve") && !present;
                if !ambiguous && (*p1 != present || *p2 != present) { bad16.push(format!("has_attribute(\"na\u{ef}ve\") = {p1}/{p2} on the tag at {a}, attribute present: {present}")); }
            }
            for (an, av, nl, vl, aln, _, _) in attrs {
                if *aln != an.to_ascii_lowercase() { bad.push(format!("attribute at {a}: name() = {:?} is not the ASCII-lowercased name_preserve_case() {:?}", trunc(aln), trunc(an))); }
                if let Some((x, y)) = nl { let r = dec(*a, *x, *y); if *an != r { bad.push(format!("attribute name at {x}..{y}: {:?} vs decode {:?}", trunc(an), trunc(&r))); } }
                if let Some((x, y)) = vl { let r = dec(*a, *x, *y); if *av != r { bad.push(format!("attribute value at {x}..{y}: {:?} vs decode {:?}", trunc(av), trunc(&r))); } }
            }
            if let Some(s) = &ins { events.push((*a, *a, enc_at(*a).encode(s).0.into_owned())); }
        }
        // ---- sink bytes
        events.sort_by_key(|e| (e.0, e.1));
        let mut cursor = 0usize;
        let mut switch_out_len: Option<usize> = None;
        for (a, b, rep) in &events {
            if let Some((p, _)) = switch { if switch_out_len.is_none() && *a >= p { switch_out_len = Some(expected_out.len() + (p - cursor)); } }
            if *a < cursor { bad.push(format!("overlapping observed ranges at {a}")); break; }
            expected_out.extend_from_slice(&input[cursor..*a]); expected_out.extend_from_slice(rep); cursor = *b;
        }
        if let Some((p, _)) = switch { if switch_out_len.is_none() { switch_out_len = Some(expected_out.len() + (p.min(input.len()).saturating_sub(cursor))); } }
        expected_out.extend_from_slice(&input[cursor.min(input.len())..]);
        if let Some(s) = &endins { expected_out.extend_from_slice(&enc_at(input.len()).encode(s).0); }
        let got: Vec<u8> = o.sink.iter().flat_map(|(_, c)| c.clone()).collect();
        if medit == 0 && got != expected_out {
            let n = got.iter().zip(expected_out.iter()).take_while(|(x, y)| x == y).count();
            bad.push(format!("sink bytes differ from the reference at output offset {n}: got {:?}.., expected {:?}.. (lengths {} / {})",
                String::from_utf8_lossy(&got[n..(n + 24).min(got.len())]), String::from_utf8_lossy(&expected_out[n..(n + 24).min(expected_out.len())]), got.len(), expected_out.len()));
        }
        // ---- set_encoding calls
        let mut emitted = 0usize;
        let mut calls: Vec<(&'static Encoding, usize)> = vec![];
        for (e, c) in &o.sink { match e { Some(e) => calls.push((*e, emitted)), None => emitted += c.len() } }
        let mut want: Vec<(&'static Encoding, usize)> = vec![(enc0, 0)];
        if let (Some((_, e)), Some(n)) = (switch, switch_out_len) { if e != enc0 { want.push((e, n)); } }
        if medit != 0 { for c in calls.iter_mut() { c.1 = 0; } for w in want.iter_mut() { w.1 = 0; } }      // (re-serialised tags: positions not compared)
        if calls != want {
            bad.push(format!("set_encoding calls (encoding, bytes emitted before) = {:?}, expected {:?}", calls.iter().map(|(e, n)| (e.name(), *n)).collect::<Vec<_>>(), want.iter().map(|(e, n)| (e.name(), *n)).collect::<Vec<_>>()));
        }
    }
    // sink protocol (property C12) in this encoding: the only zero-length chunk is the very last call of a successful end()
    let chunks: Vec<usize> = o.sink.iter().filter(|(e, _)| e.is_none()).map(|(_, c)| c.len()).collect();
    let empties: Vec<usize> = chunks.iter().enumerate().filter(|(_, n)| **n == 0).map(|(i, _)| i).collect();
    if all_ok { if empties != vec![chunks.len().saturating_sub(1)] || chunks.is_empty() { outln!("X c12-bad zero-length chunks at sink call positions {:?} of {} ({}): expected exactly one, last", empties, chunks.len(), enc0.name()); } }
    else if !empties.is_empty() { outln!("X c12-bad zero-length chunk in a failed run"); }
    for b in bad.iter().take(3) { outln!("X c13-bad {}", b.replace('\n', " ")); }
    for b in bad14.iter().take(3) { outln!("X c14-bad {}", b.replace('\n', " ")); }
    for b in bad16.iter().take(3) { outln!("X c16-bad {}", b.replace('\n', " ")); }
    if all_ok && (o.not_unencodable != o.tags.len() || o.is_unencodable != 0) { outln!("X c04-bad :not(<name no element has>) matched {} of {} elements, the name itself {} ({})", o.not_unencodable, o.tags.len(), o.is_unencodable, enc0.name()); }
    outln!("X c13-stats enc={} nodes={} chunks={} long={} nonascii={} malformed={} tags={} comments={} switched={}", enc0.name(), n_nodes, n_chunks, n_long, n_nonascii, n_malformed,
        o.tags.len(), o.comments.len(), matches!(switch, Some((p, e)) if p != usize::MAX && e != enc0) as u8);
    outln!(".");
}
fn trunc(s: &str) -> String { s.chars().take(40).collect() }

/// `TD` cases: a text-only UTF-8 document; every text chunk the document-level text handler receives is logged in the
/// level-1 event format (compared with coq/model/TextDecoder.v)
pub fn run_td_case(line: &str) {
    let m = kv(line);
    let id = line.split(' ').nth(1).unwrap();
    outln!("C {id}");
    outln!("S e0");
    let log: Rc<RefCell<Vec<String>>> = Rc::new(RefCell::new(vec![]));
    let l2 = log.clone();
    let settings = Settings::new().append_document_content_handler(DocumentContentHandlers::default()
        .text(move |t: &mut TextChunk<'_>| { let (a, b) = rng(t.source_location()); l2.borrow_mut().push(format!("E T {a}..{b} Data {} {}", hex(t.as_str().as_bytes()), t.last_in_text_node())); Ok(()) }));
    let mut rw = Some(HtmlRewriter::new(settings, |_: &[u8]| {}));
    let ops = parse_ops(m.get("ops").map(|s| s.as_str()).unwrap_or("E"));
    for (k, op) in ops.iter().enumerate() {
        let res = match rw.take() {
            None => "use-after-end".to_string(),
            Some(mut r) => match op {
                Op::Write(d) => { let o = r.write(d); rw = Some(r); if o.is_ok() { "ok".into() } else { "err".to_string() } }
                Op::End => if r.end().is_ok() { "ok".into() } else { "err".to_string() },
            },
        };
        for l in log.borrow_mut().drain(..) { outln!("{l}"); }
        outln!("R {k} {res}");
    }
    outln!(".");
}

/// `SK` cases: a streaming content handler writes a script of `write_utf8_chunk` / `write_str` calls into `<p></p>` (UTF-8
/// document); per call ok / error, and the bytes that reached the output between `<p>` and `</p>` (compared with
/// coq/model/StreamSink.v)
pub fn run_sk_case(line: &str) {
    let m = kv(line);
    let id = line.split(' ').nth(1).unwrap();
    outln!("C {id}");
    outln!("S e0");
    let ct = if m.get("ct").map(|s| s.as_str()) == Some("t") { ContentType::Text } else { ContentType::Html };
    let ops: Vec<(bool, Vec<u8>)> = m.get("ops").map(|s| s.as_str()).unwrap_or("").split(',').filter(|o| !o.is_empty()).map(|o| (o.starts_with('u'), unhex(&o[1..]))).collect();
    let log: std::sync::Arc<std::sync::Mutex<Vec<String>>> = std::sync::Arc::new(std::sync::Mutex::new(vec![]));
    let out: Rc<RefCell<Vec<u8>>> = Rc::new(RefCell::new(vec![]));
    let (l2, o2) = (log.clone(), out.clone());
    let settings = Settings::new().append_element_content_handler((Cow::Owned("p".parse::<Selector>().unwrap()), ElementContentHandlers::default().element(move |e: &mut Element<'_, '_>| {
        let (ops, l3) = (ops.clone(), l2.clone());
        e.streaming_append(lol_html::streaming!(move |sink: &mut lol_html::html_content::StreamingHandlerSink<'_>| {
            for (k, (utf8, f)) in ops.iter().enumerate() {
                if *utf8 {
                    match sink.write_utf8_chunk(f, ct) { Ok(()) => l3.lock().unwrap().push(format!("E K {k} k")), Err(e) => { l3.lock().unwrap().push(format!("E K {k} e")); return Err(e.into()); } }
                } else { sink.write_str(std::str::from_utf8(f).unwrap_or("\u{fffd}"), ct); l3.lock().unwrap().push(format!("E K {k} k")); }
            }
            Ok(())
        }));
        Ok(())
    })));
    let mut rw = HtmlRewriter::new(settings, move |c: &[u8]| o2.borrow_mut().extend_from_slice(c));
    let res = catch_unwind(AssertUnwindSafe(move || { rw.write(b"<p></p>")?; rw.end() }));
    for l in log.lock().unwrap().drain(..) { outln!("{l}"); }
    let bytes = out.borrow().clone();
    let body = bytes.strip_prefix(b"<p>").unwrap_or(&bytes);
    let body = body.strip_suffix(b"</p>").unwrap_or(body);
    outln!("S c{}", hex(body));
    outln!("R 0 {}", match res { Ok(Ok(())) => "ok".to_string(), Ok(Err(e)) => err_str(&e).to_string(), Err(_) => "panic:impl".to_string() });
    outln!(".");
}
