//! Property C18: a `send::HtmlRewriter` is driven once on a single thread and once while being moved to a freshly
//! spawned thread for every write()/end() (other threads parse selectors and run unrelated rewriters meanwhile).
//! Output, events and errors must be identical.  Verdict lines `X c18-bad ...` / `X c18-stats ...`.
use crate::util::*;
use lol_html::html_content::ContentType;
use lol_html::send::{DocumentContentHandlers, Element, ElementContentHandlers, HtmlRewriter, Settings};
use lol_html::{MemorySettings, Selector};
use std::borrow::Cow;
use std::sync::{Arc, Mutex};

type Log = Arc<Mutex<Vec<String>>>;
fn build(m: &std::collections::HashMap<String, String>, log: Log, out: Arc<Mutex<Vec<u8>>>) -> HtmlRewriter<'static, impl FnMut(&[u8]) + Send> {
    let (l1, l2, l3, l4) = (log.clone(), log.clone(), log.clone(), log.clone());
    let settings = Settings::new_send()
        .append_element_content_handler((Cow::Owned("*".parse::<Selector>().unwrap()), ElementContentHandlers::default().element(move |e: &mut Element<'_, '_>| {
            l1.lock().unwrap().push(format!("el {} {:?}", e.tag_name(), e.source_location().bytes()));
            e.set_attribute("data-seen", "1").ok();
            Ok(())
        })))
        .append_element_content_handler((Cow::Owned("div > p, span".parse::<Selector>().unwrap()), ElementContentHandlers::default().text(move |t: &mut lol_html::html_content::TextChunk<'_>| {
            l2.lock().unwrap().push(format!("tx {} {}", hex(t.as_str().as_bytes()), t.last_in_text_node()));
            if t.last_in_text_node() { t.after("<!--t-->", ContentType::Html); }
            Ok(())
        })))
        .append_document_content_handler(DocumentContentHandlers::default()
            .comments(move |c: &mut lol_html::html_content::Comment<'_>| { l3.lock().unwrap().push(format!("cm {}", hex(c.text().as_bytes()))); Ok(()) })
            .end(move |e: &mut lol_html::html_content::DocumentEnd<'_>| { l4.lock().unwrap().push("end".into()); e.append("<!--end-->", ContentType::Html); Ok(()) }))
        .with_strict(getb(m, "strict"))
        .with_memory_settings(MemorySettings::new().with_preallocated_parsing_buffer_size(geti(m, "prealloc", 0)).with_max_allowed_memory_usage(geti(m, "mem", 1 << 20)));
    HtmlRewriter::new(settings, move |c: &[u8]| out.lock().unwrap().extend_from_slice(c))
}

fn drive(m: &std::collections::HashMap<String, String>, ops: &[Op], migrate: bool) -> (Vec<String>, Vec<u8>, Vec<String>) {
    let log: Log = Default::default();
    let out: Arc<Mutex<Vec<u8>>> = Default::default();
    let mut results = vec![];
    let mut rw = match std::panic::catch_unwind(std::panic::AssertUnwindSafe(|| build(m, log.clone(), out.clone()))) { Ok(r) => Some(r), Err(_) => { return (vec!["construct-panic".into()], vec![], vec![]); } };
    for op in ops {
        let Some(r) = rw.take() else { results.push("use-after-end".into()); continue };
        let step = |mut r: HtmlRewriter<'static, _>, op: &Op| match op {
            Op::Write(d) => { let res = std::panic::catch_unwind(std::panic::AssertUnwindSafe(|| r.write(d))); (Some(r), res.map(|x| x.map_err(|e| err_str(&e).to_string())).unwrap_or(Err("panic".into()))) }
            Op::End => { let res = std::panic::catch_unwind(std::panic::AssertUnwindSafe(move || r.end())); (None, res.map(|x| x.map_err(|e| err_str(&e).to_string())).unwrap_or(Err("panic".into()))) }
        };
        let (back, res) = if migrate {
            // the rewriter moves to a new thread for this call and comes back through join()
            std::thread::scope(|s| {
                let noise = s.spawn(|| { for sel in ["a b > c", "div:nth-child(2n+1)", "[x~=\"y\" i]", "p:not(.a, #b)"] { let _ = sel.parse::<Selector>(); std::thread::yield_now(); } });
                let h = s.spawn(move || step(r, op));
                let x = h.join().unwrap(); noise.join().unwrap(); x
            })
        } else { step(r, op) };
        rw = back;
        results.push(match res { Ok(()) => "ok".to_string(), Err(e) => e });
    }
    let l = log.lock().unwrap().clone(); let o = out.lock().unwrap().clone();
    (l, o, results)
}

pub fn run_case(line: &str) {
    let m = kv(line);
    let id = line.split(' ').nth(1).unwrap();
    outln!("C {id}");
    let ops = parse_ops(m.get("ops").map(|s| s.as_str()).unwrap_or("E"));
    let a = drive(&m, &ops, false);
    let b = drive(&m, &ops, true);
    if a.2 != b.2 { outln!("X c18-bad results differ when the rewriter migrates between threads: {:?} vs {:?}", a.2, b.2); }
    else if a.1 != b.1 { outln!("X c18-bad output differs when the rewriter migrates between threads ({} vs {} bytes)", a.1.len(), b.1.len()); }
    else if a.0 != b.0 { outln!("X c18-bad handler events differ when the rewriter migrates between threads"); }
    for (k, r) in a.2.iter().enumerate() { outln!("R {k} {r}"); }
    outln!("X c18-stats events={} out={} calls={}", a.0.len(), a.1.len(), a.2.len());
    outln!(".");
}
