//! Level 2: the real HtmlRewriter with selector-scoped and document-level handlers that interpret
//! operation scripts (the same scripts the Coq model coq/model/Rewriter.v interprets).
use crate::util::*;
use lol_html::errors::RewritingError;
use lol_html::html_content::{Comment, ContentType, Doctype, Element, EndTag, TextChunk};
use lol_html::{
    AsciiCompatibleEncoding, DocumentContentHandlers, ElementContentHandlers, HtmlRewriter, MemorySettings, OutputSink, Selector,
    Settings,
};
use std::borrow::Cow;
use std::cell::RefCell;
use std::panic::{catch_unwind, AssertUnwindSafe};
use std::rc::Rc;

type HResult = Result<(), Box<dyn std::error::Error + Send + Sync>>;

#[derive(Default)]
pub struct Shared {
    pub log: Vec<String>,
    pub invocations: usize,
    pub fail_at: Option<usize>,
}
type Sh = Rc<RefCell<Shared>>;
thread_local! { static STREAM_LOG: RefCell<Vec<String>> = RefCell::new(vec![]); }

fn chunk(s: &str) -> (String, ContentType) {
    let body = String::from_utf8(unhex(&s[1..])).unwrap();
    (body, if s.starts_with('h') { ContentType::Html } else { ContentType::Text })
}
fn opt(o: Option<String>) -> String {
    match o { None => "-".into(), Some(s) => format!("={}", hex(s.as_bytes())) }
}
fn ns_name(uri: &str) -> &'static str {
    match uri { "http://www.w3.org/1999/xhtml" => "Html", "http://www.w3.org/2000/svg" => "Svg", _ => "MathML" }
}
fn attrs_line(attrs: &[lol_html::html_content::Attribute<'_>]) -> String {
    attrs.iter().map(|a| format!("{}={}@{}/{}", hex(a.name_preserve_case().as_bytes()), hex(a.value().as_bytes()),
        a.name_source_location().map(|l| format!("{:?}", l.bytes())).unwrap_or("-".into()),
        a.value_source_location().map(|l| format!("{:?}", l.bytes())).unwrap_or("-".into()))).collect::<Vec<_>>().join(",")
}
/// one invocation of user code; returns true if the injected failure hits
fn invoke(sh: &Sh) -> bool {
    let mut s = sh.borrow_mut();
    s.invocations += 1;
    s.fail_at == Some(s.invocations)
}
fn fail() -> HResult { Err("injected".into()) }

fn apply_et_ops(t: &mut EndTag<'_>, ops: &str) {
    for o in ops.split('+').filter(|o| !o.is_empty()) {
        match &o[..2] {
            "bf" => { let (c, ct) = chunk(&o[3..]); t.before(&c, ct) }
            "af" => { let (c, ct) = chunk(&o[3..]); t.after(&c, ct) }
            "rp" => { let (c, ct) = chunk(&o[3..]); t.replace(&c, ct) }
            "rm" => t.remove(),
            "sn" => t.set_name(String::from_utf8(unhex(&o[3..])).unwrap()),
            _ => panic!("bad et op {o}"),
        }
    }
}

/// C16 cross-check: every attribute that attributes() lists can be looked up by its own name, and the lookup returns the
/// value of the first attribute of that (lower-cased) name.  Names the setters' validator refuses by contract (empty, or
/// containing whitespace, '/', '>' or '=') and non-ASCII names (encoding dependent) are skipped.
fn attrs_lookup_ok(el: &Element<'_, '_>) -> bool {
    let list: Vec<(String, String)> = el.attributes().iter().map(|a| (a.name(), a.value())).collect();
    for (n, _) in &list {
        if n.is_empty() || !n.is_ascii() || n.bytes().any(|b| b == b' ' || b == b'\t' || b == b'\n' || b == b'\r' || b == 0x0c || b == b'/' || b == b'>' || b == b'=') { continue; }
        let first = list.iter().find(|(m, _)| m == n).map(|(_, v)| v.clone());
        if el.get_attribute(n) != first || !el.has_attribute(n) { return false; }
        let upper = n.to_ascii_uppercase();
        if el.get_attribute(&upper) != first || !el.has_attribute(&upper) { return false; }
    }
    true
}

fn element_handler(sh: Sh, idx: usize, ops: String) -> impl FnMut(&mut Element<'_, '_>) -> HResult {
    move |el: &mut Element<'_, '_>| {
        let tok = format!("S {:?} {} {} [{}] {}", el.source_location().bytes(), hex(el.tag_name_preserve_case().as_bytes()),
            ns_name(el.namespace_uri()), attrs_line(el.attributes()), el.is_self_closing());
        if invoke(&sh) {
            sh.borrow_mut().log.push(format!("H el {idx} r= a=- | {tok}"));
            return fail();
        }
        let mut res = String::new();
        if !attrs_lookup_ok(el) { res.push('!'); }
        let origin = el.source_location().bytes().start;
        for o in ops.split(',').filter(|o| !o.is_empty()) {
            let arg = if o.len() > 3 { &o[3..] } else { "" };
            let ok = match &o[..2] {
                "bf" => { let (c, ct) = chunk(arg); el.before(&c, ct); true }
                "af" => { let (c, ct) = chunk(arg); el.after(&c, ct); true }
                "pp" => { let (c, ct) = chunk(arg); el.prepend(&c, ct); true }
                "ap" => { let (c, ct) = chunk(arg); el.append(&c, ct); true }
                "si" => { let (c, ct) = chunk(arg); el.set_inner_content(&c, ct); true }
                "rp" => { let (c, ct) = chunk(arg); el.replace(&c, ct); true }
                "rm" => { el.remove(); true }
                "rk" => { el.remove_and_keep_content(); true }
                "sa" => { let (n, v) = arg.split_once(':').unwrap();
                          el.set_attribute(&String::from_utf8(unhex(n)).unwrap(), &String::from_utf8(unhex(v)).unwrap()).is_ok() }
                "ra" => { el.remove_attribute(&String::from_utf8(unhex(arg)).unwrap()); true }
                "tn" => el.set_tag_name(&String::from_utf8(unhex(arg)).unwrap()).is_ok(),
                "oe" => {
                    let inner = arg[1..arg.len() - 1].to_string();
                    let sh2 = sh.clone();
                    el.on_end_tag(Box::new(move |t: &mut EndTag<'_>| {
                        let tok = format!("E {:?} {}", t.source_location().bytes(), hex(t.name_preserve_case().as_bytes()));
                        let f = invoke(&sh2);
                        sh2.borrow_mut().log.push(format!("H et {origin} r= a=- | {tok}"));
                        if f { return fail(); }
                        apply_et_ops(t, &inner);
                        Ok(())
                    })).is_ok()
                }
                "ss" => {
                    // streaming content: ss:<method b|a|p|e|i|r><type h|t>:<u|s><hex>;...   (u = write_utf8_chunk, s = write_str)
                    let (m, ct) = (arg.as_bytes()[0], if arg.as_bytes()[1] == b'h' { ContentType::Html } else { ContentType::Text });
                    let frags: Vec<(bool, Vec<u8>)> = arg[3..].split(';').filter(|f| !f.is_empty()).map(|f| (f.starts_with('u'), unhex(&f[1..]))).collect();
                    let h = lol_html::streaming!(move |sink: &mut lol_html::html_content::StreamingHandlerSink<'_>| {
                        let mut res = String::new();
                        let mut out = Ok(());
                        for (utf8, f) in &frags {
                            if *utf8 {
                                match sink.write_utf8_chunk(f, ct) { Ok(()) => res.push('k'), Err(e) => { res.push('e'); out = Err(e.into()); break; } }
                            } else { sink.write_str(std::str::from_utf8(f).unwrap(), ct); res.push('k'); }
                        }
                        STREAM_LOG.with(|l| l.borrow_mut().push(format!("H ss {origin} r={res} a=- | -")));
                        out
                    });
                    match m { b'b' => el.streaming_before(h), b'a' => el.streaming_after(h), b'p' => el.streaming_prepend(h), b'e' => el.streaming_append(h),
                              b'i' => el.streaming_set_inner_content(h), _ => el.streaming_replace(h) }
                    true
                }
                "sb" => { let (c, ct) = chunk(arg); el.start_tag().before(&c, ct); true }
                "sf" => { let (c, ct) = chunk(arg); el.start_tag().after(&c, ct); true }
                "sr" => { let (c, ct) = chunk(arg); el.start_tag().replace(&c, ct); true }
                "sx" => { el.start_tag().remove(); true }
                _ => panic!("bad el op {o}"),
            };
            res.push(if ok { 'k' } else { 'e' });
        }
        if !attrs_lookup_ok(el) { res.push('!'); }
        let after = format!("{}[{}]", hex(el.tag_name_preserve_case().as_bytes()),
            el.attributes().iter().map(|a| format!("{}={}", hex(a.name_preserve_case().as_bytes()), hex(a.value().as_bytes()))).collect::<Vec<_>>().join(","));
        sh.borrow_mut().log.push(format!("H el {idx} r={res} a={after} | {tok}"));
        Ok(())
    }
}

fn comment_handler(sh: Sh, idx: usize, ops: String) -> impl FnMut(&mut Comment<'_>) -> HResult {
    move |c: &mut Comment<'_>| {
        let tok = format!("C {:?} {}", c.source_location().bytes(), hex(c.text().as_bytes()));
        if invoke(&sh) { sh.borrow_mut().log.push(format!("H cm {idx} r= a=- | {tok}")); return fail(); }
        let mut res = String::new();
        for o in ops.split(',').filter(|o| !o.is_empty()) {
            let arg = if o.len() > 3 { &o[3..] } else { "" };
            let ok = match &o[..2] {
                "bf" => { let (x, ct) = chunk(arg); c.before(&x, ct); true }
                "af" => { let (x, ct) = chunk(arg); c.after(&x, ct); true }
                "rp" => { let (x, ct) = chunk(arg); c.replace(&x, ct); true }
                "rm" => { c.remove(); true }
                "st" => c.set_text(&String::from_utf8(unhex(arg)).unwrap()).is_ok(),
                _ => panic!("bad cm op {o}"),
            };
            res.push(if ok { 'k' } else { 'e' });
        }
        sh.borrow_mut().log.push(format!("H cm {idx} r={res} a=- | {tok}"));
        Ok(())
    }
}
fn text_handler(sh: Sh, idx: usize, spec: String) -> impl FnMut(&mut TextChunk<'_>) -> HResult {
    move |t: &mut TextChunk<'_>| {
        let tok = format!("T {:?} {:?} {} {}", t.source_location().bytes(), t.text_type(), hex(t.as_str().as_bytes()), t.last_in_text_node());
        if invoke(&sh) { sh.borrow_mut().log.push(format!("H tx {idx} r= a=- | {tok}")); return fail(); }
        let when = spec.as_bytes()[0];
        let applies = match when { b'a' => true, b'l' => t.last_in_text_node(), _ => !t.last_in_text_node() };
        let mut res = String::new();
        if applies {
            for o in spec[2..].split(',').filter(|o| !o.is_empty()) {
                let arg = if o.len() > 3 { &o[3..] } else { "" };
                match &o[..2] {
                    "bf" => { let (x, ct) = chunk(arg); t.before(&x, ct) }
                    "af" => { let (x, ct) = chunk(arg); t.after(&x, ct) }
                    "rp" => { let (x, ct) = chunk(arg); t.replace(&x, ct) }
                    "rm" => t.remove(),
                    _ => panic!("bad tx op {o}"),
                }
                res.push('k');
            }
        }
        sh.borrow_mut().log.push(format!("H tx {idx} r={res} a=- | {tok}"));
        Ok(())
    }
}
fn doctype_handler(sh: Sh, idx: usize, ops: String) -> impl FnMut(&mut Doctype<'_>) -> HResult {
    move |d: &mut Doctype<'_>| {
        let tok = format!("D {:?} {} {} {} {}", d.source_location().bytes(), opt(d.name()), opt(d.public_id()), opt(d.system_id()), d.force_quirks());
        if invoke(&sh) { sh.borrow_mut().log.push(format!("H dt {idx} r= a=- | {tok}")); return fail(); }
        let mut res = String::new();
        for o in ops.split(',').filter(|o| !o.is_empty()) {
            if &o[..2] == "rm" { d.remove(); }
            res.push('k');
        }
        sh.borrow_mut().log.push(format!("H dt {idx} r={res} a=- | {tok}"));
        Ok(())
    }
}

struct Sink(Sh);
impl OutputSink for Sink {
    fn handle_chunk(&mut self, chunk: &[u8]) { self.0.borrow_mut().log.push(format!("S c{}", hex(chunk))); }
    fn set_encoding(&mut self, e: AsciiCompatibleEncoding) {
        let enc: &'static encoding_rs::Encoding = e.into();
        self.0.borrow_mut().log.push(format!("S e{}", enc_index(enc)));
    }
}

/// size_of::<StackItem<ElementDescriptor>>() measured through the limiter hook
pub fn stack_item_size() -> usize {
    let mut r = HtmlRewriter::new(
        Settings::new().append_element_content_handler((Cow::Owned("*".parse::<Selector>().unwrap()), ElementContentHandlers::default().element(|_: &mut Element<'_, '_>| Ok(()))))
            .with_memory_settings(MemorySettings::new().with_preallocated_parsing_buffer_size(0)),
        |_: &[u8]| {},
    );
    r.write(b"<a>").unwrap();
    r.verif_memory_limiter().verif_usage() / 8
}

pub fn run_case(line: &str) {
    let m = kv(line);
    let id = line.split(' ').nth(1).unwrap();
    outln!("C {id}");
    let sh: Sh = Rc::new(RefCell::new(Shared { fail_at: m.get("fail").and_then(|v| v.parse().ok()), ..Default::default() }));
    let mut settings = Settings::new();
    let (mut n_el, mut n_cm, mut n_tx, mut n_dt, mut n_end) = (0usize, 0usize, 0usize, 0usize, 0usize);
    let toks: Vec<&str> = line.split(' ').collect();
    let mut bad_selector = false;
    for t in toks.iter().filter(|t| t.starts_with("sel=")) {
        let parts: Vec<&str> = t[4..].split('~').collect();
        let sel_str = String::from_utf8(unhex(parts[0])).unwrap();
        let sel: Selector = match sel_str.parse() { Ok(s) => s, Err(e) => { outln!("X selector-error {:?} {}", e, sel_str); bad_selector = true; break; } };
        let mut h = ElementContentHandlers::default();
        if parts[2] != "-" { h = h.element(element_handler(sh.clone(), n_el, parts[2].to_string())); n_el += 1; }
        if parts[3] != "-" { h = h.comments(comment_handler(sh.clone(), n_cm, parts[3].to_string())); n_cm += 1; }
        if parts[4] != "-" { h = h.text(text_handler(sh.clone(), n_tx, parts[4].to_string())); n_tx += 1; }
        settings = settings.append_element_content_handler((Cow::Owned(sel), h));
    }
    if bad_selector { outln!("."); return; }
    for t in toks.iter().filter(|t| t.starts_with("doc=")) {
        let parts: Vec<&str> = t[4..].split('~').collect();
        let mut h = DocumentContentHandlers::default();
        if parts[0] != "-" { h = h.doctype(doctype_handler(sh.clone(), n_dt, parts[0].to_string())); n_dt += 1; }
        if parts[1] != "-" { h = h.comments(comment_handler(sh.clone(), n_cm, parts[1].to_string())); n_cm += 1; }
        if parts[2] != "-" { h = h.text(text_handler(sh.clone(), n_tx, parts[2].to_string())); n_tx += 1; }
        if parts[3] != "-" {
            let chunks: Vec<(String, ContentType)> = parts[3].split(';').filter(|c| !c.is_empty()).map(chunk).collect();
            let sh2 = sh.clone(); let idx = n_end; n_end += 1;
            h = h.end(move |e: &mut lol_html::html_content::DocumentEnd<'_>| {
                let f = invoke(&sh2);
                sh2.borrow_mut().log.push(format!("H end {idx} r= a=- | -"));
                if f { return fail(); }
                for (c, ct) in &chunks { e.append(c, *ct); }
                Ok(())
            });
        }
        settings = settings.append_document_content_handler(h);
    }
    for (bi, t) in toks.iter().filter(|t| t.starts_with("bail=")).enumerate() {
        let chunks: Vec<(String, ContentType)> = t[5..].split(';').filter(|c| !c.is_empty()).map(chunk).collect();
        let sh2 = sh.clone();
        settings = settings.append_bail_out_handler(move |_e: &RewritingError, b: &mut lol_html::html_content::BailOut<'_>| {
            sh2.borrow_mut().log.push(format!("H bail {bi} r= a=- | -"));
            for (c, ct) in &chunks { b.append(c, *ct); }
        });
    }
    let settings = settings
        .with_strict(getb(&m, "strict"))
        .with_adjust_charset_on_meta_tag(false)
        .with_graceful_bail_out_on_content_handler_error(getb(&m, "bh"))
        .with_memory_settings(MemorySettings::new()
            .with_preallocated_parsing_buffer_size(geti(&m, "prealloc", 0))
            .with_max_allowed_memory_usage(geti(&m, "mem", 1 << 20))
            .with_graceful_bail_out_on_memory_limit_exceeded(getb(&m, "bm")));
    let built = catch_unwind(AssertUnwindSafe(|| HtmlRewriter::new(settings, Sink(sh.clone()))));
    let mut rw = match built { Ok(r) => Some(r), Err(_) => { outln!("R new panic:construct"); outln!("."); return; } };
    let limiter = rw.as_ref().unwrap().verif_memory_limiter();
    let ops = parse_ops(m.get("ops").map(|s| s.as_str()).unwrap_or("E"));
    let mut failed_before = false;
    for (k, op) in ops.iter().enumerate() {
        let res = match rw.take() {
            None => "use-after-end".to_string(),
            Some(mut r) => {
                let out = match op {
                    Op::Write(d) => { let o = catch_unwind(AssertUnwindSafe(|| r.write(d))); rw = Some(r); o }
                    Op::End => catch_unwind(AssertUnwindSafe(move || r.end())),   // end(self) consumes the rewriter
                };
                match out {
                    Ok(Ok(())) => "ok".to_string(),
                    Ok(Err(e)) => err_str(&e).to_string(),
                    Err(p) => {
                        let msg = p.downcast_ref::<String>().cloned().or_else(|| p.downcast_ref::<&str>().map(|s| s.to_string())).unwrap_or_default();
                        // a panic on a call made after an earlier call failed is the documented refusal of a poisoned rewriter
                        // (whatever its wording); any other panic is reported as such
                        if failed_before { "panic:poisoned".to_string() } else { format!("panic:impl {}", msg.replace('\n', " ")) }
                    }
                }
            }
        };
        if res != "ok" && res != "use-after-end" { failed_before = true; }
        for l in sh.borrow_mut().log.drain(..) { outln!("{l}"); }
        for l in STREAM_LOG.with(|l| l.borrow_mut().drain(..).collect::<Vec<_>>()) { outln!("{l}"); }
        outln!("R {k} {res}");
        if matches!(op, Op::Write(_)) && (res == "ok" || res.starts_with("err")) { outln!("U {k} {}", limiter.verif_usage()); }
    }
    outln!(".");
}
