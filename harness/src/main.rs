#[macro_use]
mod util;
mod l1;
mod l2;
mod l3;
mod l4;
mod capi;

/// runs one case line; its log ends up in this thread's output buffer.  A panic that escapes a case (e.g. a debug
/// assertion inside a handler callback) ends that case only.
fn run_line(line: &str) {
    // "stack=<KiB>": the case runs on its own thread with that much stack (C15: stack use must not grow with the input;
    // a small stack makes a per-repetition frame visible on inputs the model can still evaluate quickly)
    if let Some(kib) = line.split(' ').find_map(|t| t.strip_prefix("stack=")).and_then(|v| v.parse::<usize>().ok()) {
        let l = line.replacen(&format!(" stack={kib}"), "", 1);
        let out = std::thread::Builder::new().stack_size(kib * 1024).spawn(move || { run_line(&l); util::take_out() }).unwrap().join().unwrap_or_default();
        util::push_out(&out);
        return;
    }
    let kind = line.split(' ').next().map(|s| s.to_string());
    let r = std::panic::catch_unwind(std::panic::AssertUnwindSafe(|| match kind.as_deref() {
        Some("L1") => l1::run_case(line),
        Some("L2") => l2::run_case(line),
        Some("L3") => l3::run_case(line),
        Some("TD") => l3::run_td_case(line),
        Some("SK") => l3::run_sk_case(line),
        _ => {}
    }));
    if let Err(p) = r {
        let msg = p.downcast_ref::<String>().cloned().or_else(|| p.downcast_ref::<&str>().map(|s| s.to_string())).unwrap_or_default();
        outln!("R 999 panic:impl {}", msg.replace('\n', " "));
        outln!("X c13-bad the implementation panicked: {}", msg.replace('\n', " "));
        outln!(".");
    }
}

fn main() {
    std::panic::set_hook(Box::new(|_| {}));
    let mode = std::env::args().nth(1).unwrap_or_default();
    use std::io::BufRead;
    match mode.as_str() {
        // every case on the main thread, one after the other
        // (on one worker thread with the default stack of a spawned Rust thread, 2 MiB: stack use that grows with the
        // input -- C15 -- then ends the process, which ./check reports with the unfinished case as the replay)
        "cases" => {
            let worker = std::thread::Builder::new().stack_size(2 * 1024 * 1024).spawn(|| {
                let stdin = std::io::stdin();
                for line in stdin.lock().lines() {
                    run_line(&line.unwrap());
                    print!("{}", util::take_out());
                }
            }).unwrap();
            let _ = worker.join();
        }
        // the same cases spread over N worker threads that run concurrently (each worker takes the next unclaimed case);
        // logs are printed in input order, so the output is comparable line by line with the sequential run
        "threads" => {
            let n: usize = std::env::args().nth(2).and_then(|v| v.parse().ok()).unwrap_or(8);
            let lines: Vec<String> = std::io::stdin().lock().lines().map(|l| l.unwrap()).collect();
            let next = std::sync::atomic::AtomicUsize::new(0);
            let results: Vec<std::sync::Mutex<String>> = lines.iter().map(|_| std::sync::Mutex::new(String::new())).collect();
            std::thread::scope(|s| {
                for _ in 0..n {
                    s.spawn(|| loop {
                        let i = next.fetch_add(1, std::sync::atomic::Ordering::SeqCst);
                        if i >= lines.len() { break; }
                        run_line(&lines[i]);
                        *results[i].lock().unwrap() = util::take_out();
                        std::thread::yield_now();
                    });
                }
            });
            for r in &results { print!("{}", r.lock().unwrap()); }
        }
        // every case on its own fresh thread (no instance ever shares a thread with an earlier one)
        "fresh" => {
            for line in std::io::stdin().lock().lines() {
                let line = line.unwrap();
                let out = std::thread::spawn(move || { run_line(&line); util::take_out() }).join().unwrap_or_default();
                print!("{out}");
            }
        }
        // C18: every case line (its ops= and memory settings) drives a send::HtmlRewriter with and without thread migration
        "migrate" => {
            for line in std::io::stdin().lock().lines() {
                let line = line.unwrap();
                let r = std::panic::catch_unwind(|| l4::run_case(&line));
                if r.is_err() { outln!("X c18-bad harness panic"); outln!("."); }
                print!("{}", util::take_out());
            }
        }
        // C17: level-2 case lines through the extern "C" entry points
        "capi" => {
            for line in std::io::stdin().lock().lines() {
                let line = line.unwrap();
                if !line.starts_with("L2 ") { continue; }
                let r = std::panic::catch_unwind(|| capi::run_case(&line));
                if r.is_err() { outln!("X capi-bad a panic escaped the case (unwinding out of the C layer)"); outln!("."); }
                print!("{}", util::take_out());
            }
            println!("X capi-last-error-per-thread {}", capi::last_error_is_per_thread());
        }
        "itemsize" => println!("{}", l2::stack_item_size()),
        _ => eprintln!("usage: harness cases|threads N|fresh < casefile | harness itemsize"),
    }
}
