mod l1;
mod l2;
mod l3;
mod util;

fn main() {
    std::panic::set_hook(Box::new(|_| {}));
    let mode = std::env::args().nth(1).unwrap_or_default();
    match mode.as_str() {
        "cases" => {
            use std::io::BufRead;
            let stdin = std::io::stdin();
            for line in stdin.lock().lines() {
                let line = line.unwrap();
                let mut it = line.split(' ');
                // a panic that escapes a case (e.g. a debug assertion inside a handler callback) ends that case only
                let kind = it.next().map(|s| s.to_string());
                let r = std::panic::catch_unwind(std::panic::AssertUnwindSafe(|| match kind.as_deref() {
                    Some("L1") => l1::run_case(&line),
                    Some("L2") => l2::run_case(&line),
                    Some("L3") => l3::run_case(&line),
                    Some("TD") => l3::run_td_case(&line),
                    _ => {}
                }));
                if let Err(p) = r {
                    let msg = p.downcast_ref::<String>().cloned().or_else(|| p.downcast_ref::<&str>().map(|s| s.to_string())).unwrap_or_default();
                    println!("R 999 panic:impl {}", msg.replace('\n', " "));
                    println!("X c13-bad the implementation panicked: {}", msg.replace('\n', " "));
                    println!(".");
                }
            }
        }
        "itemsize" => println!("{}", l2::stack_item_size()),
        _ => eprintln!("usage: harness cases < casefile | harness itemsize"),
    }
}
