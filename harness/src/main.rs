mod l1;
mod util;

fn main() {
    std::panic::set_hook(Box::new(|_| {}));
    let mode = std::env::args().nth(1).unwrap_or_default();
    match mode.as_str() {
        "cases" => {
            use std::io::BufRead;
            let stdin = std::io::stdin();
            for line in stdin.lock().lines() {
                let line = line.unwrap();
                let mut it = line.split(' ');
                match it.next() {
                    Some("L1") => l1::run_case(&line),
                    _ => {}
                }
            }
        }
        _ => eprintln!("usage: harness cases < casefile"),
    }
}
