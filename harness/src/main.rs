mod l1;
mod l2;
mod util;

fn main() {
    std::panic::set_hook(Box::new(|_| {}));
    let mode = std::env::args().nth(1).unwrap_or_default();
    match mode.as_str() {
        "cases" => {
            use std::io::BufRead;
            let stdin = std::io::stdin();
            for line in stdin.lock().lines() {
                let line = line.unwrap();
                let mut it = line.split(' ');
                match it.next() {
                    Some("L1") => l1::run_case(&line),
                    Some("L2") => l2::run_case(&line),
                    _ => {}
                }
            }
        }
        "itemsize" => println!("{}", l2::stack_item_size()),
        _ => eprintln!("usage: harness cases < casefile | harness itemsize"),
    }
}
