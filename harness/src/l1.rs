//! Level 1: the real TransformStream driven by a policy TransformController (same policy as
//! coq/model/Policy.v).
use crate::util::*;
use lol_html::errors::RewritingError;
use lol_html::html_content::{BailOut, ContentType, DocumentEnd};
use lol_html::{
    AsciiCompatibleEncoding, LocalName, Namespace, OutputSink, SharedMemoryLimiter, StartTagHandlingResult, Token,
    TokenCaptureFlags, TransformController, TransformStream, TransformStreamSettings,
};
use std::cell::RefCell;
use std::panic::{catch_unwind, AssertUnwindSafe};
use std::rc::Rc;

fn pf(k: usize) -> TokenCaptureFlags {
    if k >= 2000 { return TokenCaptureFlags::all(); }
    if k % 3 == 0 { TokenCaptureFlags::empty() } else { TokenCaptureFlags::from_bits_truncate(((k * 37 + 11) % 32) as u8) }
}
fn opt(o: Option<String>) -> String {
    match o { None => "-".into(), Some(s) => format!("={}", hex(s.as_bytes())) }
}
struct Ctl {
    counter: usize, seed: usize, fail_at: Option<usize>, remove: bool, bail: Vec<u8>, endt: Vec<u8>, tokens: usize,
    log: Rc<RefCell<Vec<String>>>,
}
pub fn token_line(token: &Token<'_>) -> String {
    match token {
        Token::StartTag(t) => format!("E S {:?} {} {} [{}] {}", t.source_location().bytes(), hex(t.name_preserve_case().as_bytes()),
            match t.namespace_uri() { "http://www.w3.org/1999/xhtml" => "Html", "http://www.w3.org/2000/svg" => "Svg", _ => "MathML" },
            t.attributes().iter().map(|a| format!("{}={}@{}/{}", hex(a.name_preserve_case().as_bytes()), hex(a.value().as_bytes()),
                a.name_source_location().map(|l| format!("{:?}", l.bytes())).unwrap_or("-".into()),
                a.value_source_location().map(|l| format!("{:?}", l.bytes())).unwrap_or("-".into()))).collect::<Vec<_>>().join(","),
            t.self_closing()),
        Token::EndTag(t) => format!("E E {:?} {}", t.source_location().bytes(), hex(t.name_preserve_case().as_bytes())),
        Token::TextChunk(t) => format!("E T {:?} {:?} {} {}", t.source_location().bytes(), t.text_type(), hex(t.as_str().as_bytes()), t.last_in_text_node()),
        Token::Comment(c) => format!("E C {:?} {}", c.source_location().bytes(), hex(c.text().as_bytes())),
        Token::Doctype(d) => format!("E D {:?} {} {} {} {}", d.source_location().bytes(), opt(d.name()), opt(d.public_id()), opt(d.system_id()), d.force_quirks()),
    }
}
impl TransformController for Ctl {
    fn initial_capture_flags(&self) -> TokenCaptureFlags { pf(self.seed) }
    fn handle_start_tag(&mut self, _: LocalName<'_>, _: Namespace) -> StartTagHandlingResult<Self> {
        let k = self.counter + self.seed; self.counter += 1; Ok(pf(k))
    }
    fn handle_end_tag(&mut self, _: LocalName<'_>) -> TokenCaptureFlags {
        let k = self.counter + self.seed; self.counter += 1; pf(k + 2)
    }
    fn handle_token(&mut self, token: &mut Token<'_>) -> Result<(), RewritingError> {
        self.tokens += 1;
        self.log.borrow_mut().push(token_line(token));
        if self.fail_at == Some(self.tokens) {
            return Err(RewritingError::ContentHandlerError("injected".into()));
        }
        Ok(())
    }
    fn handle_end(&mut self, de: &mut DocumentEnd<'_>) -> Result<(), RewritingError> {
        if !self.endt.is_empty() { de.append(std::str::from_utf8(&self.endt).unwrap(), ContentType::Html); }
        Ok(())
    }
    fn should_emit_content(&self) -> bool { if self.remove { (self.counter / 3) % 3 != 1 } else { true } }
    fn handle_bail_out(&mut self, _e: &RewritingError, b: &mut BailOut<'_>) {
        if !self.bail.is_empty() { b.append(std::str::from_utf8(&self.bail).unwrap(), ContentType::Html); }
    }
}
struct Sink(Rc<RefCell<Vec<String>>>);
impl OutputSink for Sink {
    fn handle_chunk(&mut self, chunk: &[u8]) { self.0.borrow_mut().push(format!("S c{}", hex(chunk))); }
    fn set_encoding(&mut self, e: AsciiCompatibleEncoding) {
        let enc: &'static encoding_rs::Encoding = e.into();
        self.0.borrow_mut().push(format!("S e{}", crate::util::enc_index(enc)));
    }
}

pub fn run_case(line: &str) {
    let m = kv(line);
    let id = line.split(' ').nth(1).unwrap();
    outln!("C {id}");
    let log = Rc::new(RefCell::new(Vec::<String>::new()));
    let ctl = Ctl { counter: 0, seed: geti(&m, "seed", 0), fail_at: m.get("fail").and_then(|v| v.parse().ok()), remove: getb(&m, "remove"),
        bail: hexopt(&m, "bail"), endt: hexopt(&m, "endt"), tokens: 0, log: log.clone() };
    let limiter = SharedMemoryLimiter::new(geti(&m, "mem", 1 << 20));
    let built = catch_unwind(AssertUnwindSafe(|| TransformStream::new(TransformStreamSettings {
        transform_controller: ctl,
        output_sink: Sink(log.clone()),
        preallocated_parsing_buffer_size: geti(&m, "prealloc", 0),
        memory_limiter: limiter.clone(),
        encoding: AsciiCompatibleEncoding::utf_8(),
        next_encoding: Default::default(),
        strict: getb(&m, "strict"),
        graceful_bail_out_on_memory_limit_exceeded: getb(&m, "bm"),
        graceful_bail_out_on_content_handler_error: getb(&m, "bh"),
    })));
    let mut ts = match built { Ok(t) => t, Err(_) => { outln!("R new panic:construct"); outln!("."); return; } };
    let ops = parse_ops(m.get("ops").map(|s| s.as_str()).unwrap_or("E"));
    let mut poisoned = false;
    let mut ended = false;
    for (k, op) in ops.iter().enumerate() {
        // HtmlRewriter's guarded! is replicated here for the bare TransformStream; end(self) consumes the rewriter
        let res = if ended { "use-after-end".to_string() } else if poisoned { if matches!(op, Op::End) { ended = true; } "panic:poisoned".to_string() } else {
            if matches!(op, Op::End) { ended = true; }
            match catch_unwind(AssertUnwindSafe(|| match op { Op::Write(d) => ts.write(d), Op::End => ts.end() })) {
                Ok(Ok(())) => "ok".to_string(),
                Ok(Err(e)) => { poisoned = true; err_str(&e).to_string() }
                Err(_) => { poisoned = true; "panic:impl".to_string() }
            }
        };
        for l in log.borrow_mut().drain(..) { outln!("{l}"); }
        outln!("R {k} {res}");
        outln!("U {k} {}", limiter.verif_usage());
    }
    outln!(".");
}
