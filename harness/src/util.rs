use std::collections::HashMap;

pub fn hex(b: &[u8]) -> String {
    let mut s = String::with_capacity(b.len() * 2);
    for x in b {
        s.push_str(&format!("{:02x}", x));
    }
    s
}
pub fn unhex(s: &str) -> Vec<u8> {
    (0..s.len() / 2).map(|i| u8::from_str_radix(&s[2 * i..2 * i + 2], 16).unwrap()).collect()
}
pub fn kv(line: &str) -> HashMap<String, String> {
    line.split(' ')
        .filter_map(|t| t.split_once('=').map(|(k, v)| (k.to_string(), v.to_string())))
        .collect()
}
pub fn geti(m: &HashMap<String, String>, k: &str, d: usize) -> usize {
    m.get(k).map(|v| v.parse().unwrap()).unwrap_or(d)
}
pub fn getb(m: &HashMap<String, String>, k: &str) -> bool {
    m.get(k).map(|v| v == "1").unwrap_or(false)
}
pub fn hexopt(m: &HashMap<String, String>, k: &str) -> Vec<u8> {
    match m.get(k) {
        Some(v) if v != "-" => unhex(v),
        _ => vec![],
    }
}
pub enum Op {
    Write(Vec<u8>),
    End,
}
pub fn parse_ops(s: &str) -> Vec<Op> {
    s.split(',')
        .filter(|o| !o.is_empty())
        .map(|o| if o == "E" { Op::End } else { Op::Write(unhex(&o[1..])) })
        .collect()
}
pub fn err_str(e: &lol_html::errors::RewritingError) -> &'static str {
    use lol_html::errors::RewritingError::*;
    match e {
        MemoryLimitExceeded(_) => "err:mem",
        ParsingAmbiguity(_) => "err:amb",
        ContentHandlerError(_) => "err:handler",
        _ => "err:other",
    }
}
pub fn enc_index(e: &'static encoding_rs::Encoding) -> usize {
    lol_html::test_utils::ASCII_COMPATIBLE_ENCODINGS.iter().position(|x| *x == e).map(|i| if e == encoding_rs::UTF_8 { 0 } else { i + 1 }).unwrap_or(999)
}

// ---- per-thread output buffer: cases write their log here, the driver prints or collects it
thread_local! { pub static OUT: std::cell::RefCell<String> = std::cell::RefCell::new(String::new()); }
pub fn emit(s: String) { OUT.with(|o| { let mut o = o.borrow_mut(); o.push_str(&s); o.push('\n'); }); }
pub fn push_out(s: &str) { OUT.with(|o| o.borrow_mut().push_str(s)); }
pub fn take_out() -> String { OUT.with(|o| std::mem::take(&mut *o.borrow_mut())) }
#[macro_export]
macro_rules! outln { ($($arg:tt)*) => { $crate::util::emit(format!($($arg)*)) }; }
