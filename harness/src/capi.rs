//! Property C17: the same level-2 case lines, driven through the exported `extern "C"` entry points of the c-api crate
//! exactly as a C program would (builder, selectors, handler callbacks with user data, accessors, mutators, write/end/
//! free, last-error string).  The log has the level-2 format (fields the C API cannot observe are printed as `?`), so it
//! is compared with the Coq model and with the Rust-API run.  `X capi-bad ...` lines report contract violations of the
//! C layer itself (unwinding across the boundary, stale or missing last-error strings).
use crate::util::*;
use libc::{c_char, c_int, c_void, size_t};
use lol_html::html_content::{Comment, Doctype, DocumentEnd, Element, EndTag, TextChunk};
use lol_html::MemorySettings;
use lolhtml::comment::*;
use lolhtml::doctype::*;
use lolhtml::document_end::*;
use lolhtml::element::*;
use lolhtml::errors::lol_html_take_last_error;
use lolhtml::rewriter::*;
use lolhtml::rewriter_builder::*;
use lolhtml::selector::*;
use lolhtml::streaming::*;
use lolhtml::string::{lol_html_str_free, Str};
use lolhtml::text_chunk::*;
use std::cell::RefCell;
use std::panic::{catch_unwind, AssertUnwindSafe};

#[derive(Default)]
struct Shared { log: Vec<String>, slog: Vec<String>, invocations: usize, fail_at: Option<usize>, bad: Vec<String>, keep: Vec<*mut HData>,
    /// a failing setter whose error was deliberately NOT collected (odd handler indices): the next failure must overwrite it
    untaken: bool }
struct HData { idx: usize, ops: String, sh: *const RefCell<Shared> }
#[repr(C)]
struct RawStr { data: *const c_char, len: size_t }
thread_local! { static BAD: RefCell<Vec<String>> = RefCell::new(vec![]); }

fn sh<'a>(d: *mut c_void) -> (&'a HData, &'a RefCell<Shared>) { let h = unsafe { &*(d as *const HData) }; (h, unsafe { &*h.sh }) }
/// owned C string -> bytes (None for NULL), freed through the API
fn take_str(s: Str) -> Option<Vec<u8>> {
    let raw: RawStr = unsafe { std::mem::transmute_copy(&s) };
    let out = if raw.data.is_null() { None } else { Some(unsafe { std::slice::from_raw_parts(raw.data as *const u8, raw.len) }.to_vec()) };
    unsafe { lol_html_str_free(s) };
    out
}
fn opt(o: Option<Vec<u8>>) -> String { match o { None => "-".into(), Some(s) => format!("={}", hex(&s)) } }
/// a string accessor for something that exists: NULL is a contract violation of the C layer (it means "absent")
fn must(o: Option<Vec<u8>>) -> String { match o { None => "NULL".into(), Some(s) => hex(&s) } }
fn invoke(s: &RefCell<Shared>) -> bool { let mut s = s.borrow_mut(); s.invocations += 1; s.fail_at == Some(s.invocations) }
fn cchunk(s: &str) -> (Vec<u8>, bool) { (unhex(&s[1..]), s.starts_with('h')) }
fn p(b: &[u8]) -> (*const c_char, size_t) { (b.as_ptr() as *const c_char, b.len()) }
fn ns_name(el: *mut Element) -> &'static str {
    let u = unsafe { std::ffi::CStr::from_ptr(lol_html_element_namespace_uri_get(el)) }.to_bytes();
    match u { b"http://www.w3.org/1999/xhtml" => "Html", b"http://www.w3.org/2000/svg" => "Svg", _ => "MathML" }
}
fn attrs(el: *mut Element, with_locs: bool) -> String {
    let it = unsafe { lol_html_attributes_iterator_get(el) };
    let mut v = vec![];
    loop {
        let a = unsafe { lol_html_attributes_iterator_next(it) };
        if a.is_null() { break; }
        let n = take_str(unsafe { lol_html_attribute_name_get_preserve_case(a) });
        let val = take_str(unsafe { lol_html_attribute_value_get(a) });
        // cross-check the by-name accessors: an attribute the iterator lists exists, so get_attribute is non-NULL and has_attribute is 1
        if let Some(nb) = &n {
            // names the validator refuses by contract (whitespace, '/', '>', '=') cannot be looked up through either API
            if std::str::from_utf8(nb).is_ok() && !nb.is_empty() && !nb.iter().any(|b| matches!(*b, b' ' | b'\t' | b'\n' | b'\r' | 0x0c | b'/' | b'>' | b'=')) {
                let (d, l) = p(nb);
                let got = take_str(unsafe { lol_html_element_get_attribute(el, d, l) });
                let has = unsafe { lol_html_element_has_attribute(el, d, l) };
                if got.is_none() || has != 1 { BAD.with(|b| b.borrow_mut().push(format!("attribute {} is listed by the iterator but get_attribute is {} and has_attribute is {}", hex(nb), if got.is_none() { "NULL" } else { "set" }, has))); }
            }
        }
        v.push(format!("{}={}{}", must(n), must(val), if with_locs { "@?/?" } else { "" }));
    }
    unsafe { lol_html_attributes_iterator_free(it) };
    v.join(",")
}

unsafe extern "C" fn c_et(t: *mut EndTag, ud: *mut c_void) -> RewriterDirective {
    let (h, s) = sh(ud);
    let loc = unsafe { lol_html_end_tag_source_location_bytes(t) };
    let tok = format!("E {}..{} {}", loc.start, loc.end, must(take_str(unsafe { lol_html_end_tag_name_get_preserve_case(t) })));
    let f = invoke(s);
    s.borrow_mut().log.push(format!("H et {} r= a=- | {tok}", h.idx));
    if f { return RewriterDirective::Stop; }
    for o in h.ops.split('+').filter(|o| !o.is_empty()) {
        match &o[..2] {
            "bf" => { let (c, html) = cchunk(&o[3..]); let (d, l) = p(&c); unsafe { lol_html_end_tag_before(t, d, l, html); } }
            "af" => { let (c, html) = cchunk(&o[3..]); let (d, l) = p(&c); unsafe { lol_html_end_tag_after(t, d, l, html); } }
            "rm" => unsafe { lol_html_end_tag_remove(t) },
            "sn" => { let n = unhex(&o[3..]); let (d, l) = p(&n); unsafe { lol_html_end_tag_name_set(t, d, l); } }
            _ => s.borrow_mut().bad.push(format!("unsupported end tag op {o}")),
        }
    }
    RewriterDirective::Continue
}
unsafe extern "C" fn c_write_all(sink: &mut CStreamingHandlerSink<'_>, ud: *mut c_void) -> c_int {
    let (h, s) = sh(ud);
    let is_html = h.ops.as_bytes()[1] == b'h';
    let mut res = String::new();
    let mut rc = 0;
    for f in h.ops[3..].split(';').filter(|f| !f.is_empty()) {
        let b = unhex(&f[1..]); let (d, l) = p(&b);
        let r = if f.starts_with('u') { unsafe { lol_html_streaming_sink_write_utf8_chunk(sink, d, l, is_html) } } else { unsafe { lol_html_streaming_sink_write_str(sink, d, l, is_html) } };
        if r == 0 { res.push('k'); } else { res.push('e'); let _ = take_str(lol_html_take_last_error()); rc = r; break; }
    }
    s.borrow_mut().slog.push(format!("H ss {} r={res} a=- | -", h.idx));
    rc
}
unsafe extern "C" fn c_el(el: *mut Element, ud: *mut c_void) -> RewriterDirective {
    let (h, s) = sh(ud);
    let loc = unsafe { lol_html_element_source_location_bytes(el) };
    let tok = format!("S {}..{} {} {} [{}] {}", loc.start, loc.end, must(take_str(unsafe { lol_html_element_tag_name_get_preserve_case(el) })),
        ns_name(el), attrs(el, true), unsafe { lol_html_element_is_self_closing(el) });
    if invoke(s) { s.borrow_mut().log.push(format!("H el {} r= a=- | {tok}", h.idx)); return RewriterDirective::Stop; }
    let mut res = String::new();
    for o in h.ops.split(',').filter(|o| !o.is_empty()) {
        let arg = if o.len() > 3 { &o[3..] } else { "" };
        macro_rules! content { ($f:ident) => {{ let (c, html) = cchunk(arg); let (d, l) = p(&c); (unsafe { $f(el, d, l, html) }) == 0 }}; }
        let ok = match &o[..2] {
            "bf" => content!(lol_html_element_before), "af" => content!(lol_html_element_after), "pp" => content!(lol_html_element_prepend),
            "ap" => content!(lol_html_element_append), "si" => content!(lol_html_element_set_inner_content), "rp" => content!(lol_html_element_replace),
            "rm" => { unsafe { lol_html_element_remove(el) }; true }
            "rk" => { unsafe { lol_html_element_remove_and_keep_content(el) }; true }
            "sa" => { let (n, v) = arg.split_once(':').unwrap(); let (n, v) = (unhex(n), unhex(v)); let ((a, b), (c, d)) = (p(&n), p(&v));
                      let r = unsafe { lol_html_element_set_attribute(el, a, b, c, d) };
                      if r != 0 { s.borrow_mut().untaken = true; } r == 0 }      // the error of a failing set_attribute is never collected here
            "ra" => { let n = unhex(arg); let (a, b) = p(&n); unsafe { lol_html_element_remove_attribute(el, a, b) }; true }
            "tn" => { let n = unhex(arg); let (a, b) = p(&n); let r = unsafe { lol_html_element_tag_name_set(el, a, b) };
                      if r != 0 { if (h.idx + loc.start) % 2 == 0 { let _ = take_str(lol_html_take_last_error()); } else { s.borrow_mut().untaken = true; } } r == 0 }
            "oe" => {
                let d = Box::into_raw(Box::new(HData { idx: loc.start, ops: arg[1..arg.len() - 1].to_string(), sh: h.sh }));
                s.borrow_mut().keep.push(d);
                let r = unsafe { lol_html_element_add_end_tag_handler(el, c_et, d as *mut c_void) }; if r != 0 { let _ = take_str(lol_html_take_last_error()); } r == 0
            }
            "ss" => {
                let d = Box::into_raw(Box::new(HData { idx: loc.start, ops: arg.to_string(), sh: h.sh }));
                s.borrow_mut().keep.push(d);
                let mut handler = CStreamingHandler { user_data: d as *mut c_void, write_all_callback: Some(c_write_all), drop_callback: None, reserved: std::ptr::null_mut() };
                let r = unsafe { match arg.as_bytes()[0] {
                    b'b' => lol_html_element_streaming_before(el, &mut handler), b'a' => lol_html_element_streaming_after(el, &mut handler),
                    b'p' => lol_html_element_streaming_prepend(el, &mut handler), b'e' => lol_html_element_streaming_append(el, &mut handler),
                    b'i' => lol_html_element_streaming_set_inner_content(el, &mut handler), _ => lol_html_element_streaming_replace(el, &mut handler) } };
                std::mem::forget(handler);
                r == 0
            }
            _ => { s.borrow_mut().bad.push(format!("unsupported element op {o}")); true }
        };
        res.push(if ok { 'k' } else { 'e' });
    }
    let after = format!("{}[{}]", must(take_str(unsafe { lol_html_element_tag_name_get_preserve_case(el) })), attrs(el, false));
    s.borrow_mut().log.push(format!("H el {} r={res} a={after} | {tok}", h.idx));
    RewriterDirective::Continue
}
unsafe extern "C" fn c_cm(c: *mut Comment, ud: *mut c_void) -> RewriterDirective {
    let (h, s) = sh(ud);
    let loc = unsafe { lol_html_comment_source_location_bytes(c) };
    let tok = format!("C {}..{} {}", loc.start, loc.end, must(take_str(unsafe { lol_html_comment_text_get(c) })));
    if invoke(s) { s.borrow_mut().log.push(format!("H cm {} r= a=- | {tok}", h.idx)); return RewriterDirective::Stop; }
    let mut res = String::new();
    for o in h.ops.split(',').filter(|o| !o.is_empty()) {
        let arg = if o.len() > 3 { &o[3..] } else { "" };
        macro_rules! content { ($f:ident) => {{ let (x, html) = cchunk(arg); let (d, l) = p(&x); (unsafe { $f(c, d, l, html) }) == 0 }}; }
        let ok = match &o[..2] {
            "bf" => content!(lol_html_comment_before), "af" => content!(lol_html_comment_after), "rp" => content!(lol_html_comment_replace),
            "rm" => { unsafe { lol_html_comment_remove(c) }; true }
            "st" => { let t = unhex(arg); let (d, l) = p(&t); let r = unsafe { lol_html_comment_text_set(c, d, l) }; if r != 0 { let _ = take_str(lol_html_take_last_error()); } r == 0 }
            _ => { s.borrow_mut().bad.push(format!("unsupported comment op {o}")); true }
        };
        res.push(if ok { 'k' } else { 'e' });
    }
    s.borrow_mut().log.push(format!("H cm {} r={res} a=- | {tok}", h.idx));
    RewriterDirective::Continue
}
unsafe extern "C" fn c_tx(t: *mut TextChunk, ud: *mut c_void) -> RewriterDirective {
    let (h, s) = sh(ud);
    let loc = unsafe { lol_html_text_chunk_source_location_bytes(t) };
    let content: RawStr = unsafe { std::mem::transmute(lol_html_text_chunk_content_get(t)) };
    let text = unsafe { std::slice::from_raw_parts(content.data as *const u8, content.len) }.to_vec();
    let last = unsafe { lol_html_text_chunk_is_last_in_text_node(t) };
    let tok = format!("T {}..{} ? {} {}", loc.start, loc.end, hex(&text), last);
    if invoke(s) { s.borrow_mut().log.push(format!("H tx {} r= a=- | {tok}", h.idx)); return RewriterDirective::Stop; }
    let when = h.ops.as_bytes()[0];
    let applies = match when { b'a' => true, b'l' => last, _ => !last };
    let mut res = String::new();
    if applies {
        for o in h.ops[2..].split(',').filter(|o| !o.is_empty()) {
            let arg = if o.len() > 3 { &o[3..] } else { "" };
            macro_rules! content { ($f:ident) => {{ let (x, html) = cchunk(arg); let (d, l) = p(&x); unsafe { $f(t, d, l, html); } }}; }
            match &o[..2] {
                "bf" => content!(lol_html_text_chunk_before), "af" => content!(lol_html_text_chunk_after), "rp" => content!(lol_html_text_chunk_replace),
                "rm" => unsafe { lol_html_text_chunk_remove(t) },
                _ => s.borrow_mut().bad.push(format!("unsupported text op {o}")),
            }
            res.push('k');
        }
    }
    s.borrow_mut().log.push(format!("H tx {} r={res} a=- | {tok}", h.idx));
    RewriterDirective::Continue
}
unsafe extern "C" fn c_dt(d: *mut Doctype, ud: *mut c_void) -> RewriterDirective {
    let (h, s) = sh(ud);
    let loc = unsafe { lol_html_doctype_source_location_bytes(d) };
    let tok = format!("D {}..{} {} {} {} ?", loc.start, loc.end, opt(take_str(unsafe { lol_html_doctype_name_get(d) })),
        opt(take_str(unsafe { lol_html_doctype_public_id_get(d) })), opt(take_str(unsafe { lol_html_doctype_system_id_get(d) })));
    if invoke(s) { s.borrow_mut().log.push(format!("H dt {} r= a=- | {tok}", h.idx)); return RewriterDirective::Stop; }
    let mut res = String::new();
    for o in h.ops.split(',').filter(|o| !o.is_empty()) { if &o[..2] == "rm" { unsafe { lol_html_doctype_remove(d) }; } res.push('k'); }
    s.borrow_mut().log.push(format!("H dt {} r={res} a=- | {tok}", h.idx));
    RewriterDirective::Continue
}
unsafe extern "C" fn c_end(e: *mut DocumentEnd, ud: *mut c_void) -> RewriterDirective {
    let (h, s) = sh(ud);
    let f = invoke(s);
    s.borrow_mut().log.push(format!("H end {} r= a=- | -", h.idx));
    if f { return RewriterDirective::Stop; }
    for c in h.ops.split(';').filter(|c| !c.is_empty()) { let (x, html) = cchunk(c); let (d, l) = p(&x); unsafe { lol_html_doc_end_append(e, d, l, html); } }
    RewriterDirective::Continue
}
unsafe extern "C" fn c_sink(chunk: *const c_char, len: size_t, ud: *mut c_void) {
    let s = unsafe { &*(ud as *const RefCell<Shared>) };
    let b = unsafe { std::slice::from_raw_parts(chunk as *const u8, len) };
    s.borrow_mut().log.push(format!("S c{}", hex(b)));
}

fn classify(msg: &str) -> String {
    let m = msg.to_ascii_lowercase();
    if m.contains("after a fatal error") { "panic:poisoned".into() }
    else if m.contains("memory limit") { "err:mem".into() }
    else if m.contains("stopped") || m.contains("write_all_callback reported error") { "err:handler".into() }
    else if m.contains("ambigu") { "err:amb".into() }
    else { format!("err:other {}", msg.replace('\n', " ")) }
}

pub fn supported(line: &str) -> bool {
    if line.contains(" bail=") || line.contains(" bh=1") { return false; }
    for t in line.split(' ').filter(|t| t.starts_with("sel=")) {
        let parts: Vec<&str> = t[4..].split('~').collect();
        if parts[2].split(',').any(|o| o.starts_with("sb:") || o.starts_with("sf:") || o.starts_with("sr:") || o == "sx") { return false; }
        if parts[2].contains("+rp:") || parts[2].contains("(rp:") { return false; }
    }
    true
}

pub fn run_case(line: &str) {
    let m = kv(line);
    let id = line.split(' ').nth(1).unwrap();
    outln!("C {id}");
    if !supported(line) { outln!("X capi-unsupported"); outln!("."); return; }
    let shared = Box::new(RefCell::new(Shared { fail_at: m.get("fail").and_then(|v| v.parse().ok()), ..Default::default() }));
    let shp: *const RefCell<Shared> = &*shared;
    let mk = |idx: usize, ops: &str| -> *mut c_void { let d = Box::into_raw(Box::new(HData { idx, ops: ops.to_string(), sh: shp })); shared.borrow_mut().keep.push(d); d as *mut c_void };
    let builder = unsafe { lol_html_rewriter_builder_new() };
    let mut selectors = vec![];
    let (mut n_el, mut n_cm, mut n_tx, mut n_dt, mut n_end) = (0usize, 0usize, 0usize, 0usize, 0usize);
    let toks: Vec<&str> = line.split(' ').collect();
    for t in toks.iter().filter(|t| t.starts_with("sel=")) {
        let parts: Vec<&str> = t[4..].split('~').collect();
        let css = unhex(parts[0]);
        let (d, l) = p(&css);
        let sel = unsafe { lol_html_selector_parse(d, l) };
        if sel.is_null() { outln!("X selector-error {:?}", take_str(lol_html_take_last_error()).map(|b| String::from_utf8_lossy(&b).into_owned())); outln!("."); return; }
        selectors.push(sel);
        let (mut he, mut hc, mut ht): (Option<unsafe extern "C" fn(*mut Element, *mut c_void) -> RewriterDirective>, Option<unsafe extern "C" fn(*mut Comment, *mut c_void) -> RewriterDirective>, Option<unsafe extern "C" fn(*mut TextChunk, *mut c_void) -> RewriterDirective>) = (None, None, None);
        let (mut de, mut dc, mut dtx) = (std::ptr::null_mut(), std::ptr::null_mut(), std::ptr::null_mut());
        if parts[2] != "-" { he = Some(c_el); de = mk(n_el, parts[2]); n_el += 1; }
        if parts[3] != "-" { hc = Some(c_cm); dc = mk(n_cm, parts[3]); n_cm += 1; }
        if parts[4] != "-" { ht = Some(c_tx); dtx = mk(n_tx, parts[4]); n_tx += 1; }
        unsafe { lol_html_rewriter_builder_add_element_content_handlers(builder, sel, he, de, hc, dc, ht, dtx) };
    }
    for t in toks.iter().filter(|t| t.starts_with("doc=")) {
        let parts: Vec<&str> = t[4..].split('~').collect();
        let (mut hd, mut hc, mut ht, mut hn): (Option<unsafe extern "C" fn(*mut Doctype, *mut c_void) -> RewriterDirective>, Option<unsafe extern "C" fn(*mut Comment, *mut c_void) -> RewriterDirective>,
            Option<unsafe extern "C" fn(*mut TextChunk, *mut c_void) -> RewriterDirective>, Option<unsafe extern "C" fn(*mut DocumentEnd, *mut c_void) -> RewriterDirective>) = (None, None, None, None);
        let (mut dd, mut dc, mut dtx, mut dn) = (std::ptr::null_mut(), std::ptr::null_mut(), std::ptr::null_mut(), std::ptr::null_mut());
        if parts[0] != "-" { hd = Some(c_dt); dd = mk(n_dt, parts[0]); n_dt += 1; }
        if parts[1] != "-" { hc = Some(c_cm); dc = mk(n_cm, parts[1]); n_cm += 1; }
        if parts[2] != "-" { ht = Some(c_tx); dtx = mk(n_tx, parts[2]); n_tx += 1; }
        if parts[3] != "-" { hn = Some(c_end); dn = mk(n_end, parts[3]); n_end += 1; }
        unsafe { lol_html_rewriter_builder_add_document_content_handlers(builder, hd, dd, hc, dc, ht, dtx, hn, dn) };
    }
    let ms = MemorySettings::new()
        .with_preallocated_parsing_buffer_size(geti(&m, "prealloc", 0))
        .with_max_allowed_memory_usage(geti(&m, "mem", 1 << 20))
        .with_graceful_bail_out_on_memory_limit_exceeded(getb(&m, "bm"));
    let enc = b"utf-8";
    let rw = unsafe { lol_html_rewriter_build(builder, enc.as_ptr() as *const c_char, enc.len(), ms, c_sink, shp as *mut c_void, getb(&m, "strict")) };
    // the header allows freeing the builder (then its selectors) before the rewriters built from it are used
    let early_free = id.bytes().map(|b| b as usize).sum::<usize>() % 2 == 0;
    let free_builder = |b: *mut HtmlRewriterBuilder, sels: &Vec<*mut lol_html::Selector>| unsafe { lol_html_rewriter_builder_free(b); for s in sels { lol_html_selector_free(*s); } };
    if early_free { free_builder(builder, &selectors); }
    if rw.is_null() {
        let _ = take_str(lol_html_take_last_error());
        outln!("R new panic:construct");
    } else {
        if take_str(lol_html_take_last_error()).is_some() { shared.borrow_mut().bad.push("last error set after a successful build".into()); }
        let ops = parse_ops(m.get("ops").map(|s| s.as_str()).unwrap_or("E"));
        let mut ended = false;
        for (k, op) in ops.iter().enumerate() {
            let res = if ended { "use-after-end".to_string() } else {
                let rc = catch_unwind(AssertUnwindSafe(|| match op {
                    Op::Write(d) => { let (a, b) = p(d); unsafe { lol_html_rewriter_write(rw, a, b) } }
                    Op::End => unsafe { lol_html_rewriter_end(rw) },
                }));
                if matches!(op, Op::End) { ended = true; }
                match rc {
                    Err(_) => { shared.borrow_mut().bad.push(format!("call {k} unwound across the C boundary")); "panic:unwound".to_string() }
                    Ok(rc) => {
                        let err: Option<Vec<u8>> = take_str(lol_html_take_last_error());
                        if std::env::var("LOLV_DEBUG").is_ok() { eprintln!("call {k} rc={rc} err={:?}", err.as_ref().map(|e| String::from_utf8_lossy(e).into_owned())); }
                        let untaken = std::mem::take(&mut shared.borrow_mut().untaken);
                        if rc == 0 { if err.is_some() && !untaken { shared.borrow_mut().bad.push(format!("call {k} returned 0 but left a last-error string")); } "ok".to_string() }
                        else {
                            if rc != -1 { shared.borrow_mut().bad.push(format!("call {k} returned {rc}")); }
                            match err { None => { shared.borrow_mut().bad.push(format!("call {k} failed without a last-error string")); "err:none".into() }
                                        Some(e) => { if take_str(lol_html_take_last_error()).is_some() { shared.borrow_mut().bad.push("take_last_error did not clear the error".into()); }
                                                     classify(&String::from_utf8_lossy(&e)) } }
                        }
                    }
                }
            };
            for l in shared.borrow_mut().log.drain(..) { outln!("{l}"); }
            for l in shared.borrow_mut().slog.drain(..) { outln!("{l}"); }
            outln!("R {k} {res}");
        }
        unsafe { lol_html_rewriter_free(rw) };
    }
    if !early_free { free_builder(builder, &selectors); }
    for b in BAD.with(|b| b.borrow_mut().drain(..).collect::<Vec<_>>()) { shared.borrow_mut().bad.push(b); }
    for b in shared.borrow().bad.iter().take(3) { outln!("X capi-bad {b}"); }
    let keep: Vec<*mut HData> = shared.borrow_mut().keep.drain(..).collect();
    for d in keep { drop(unsafe { Box::from_raw(d) }); }
    outln!(".");
}

/// C18 clause: an error recorded on one thread is neither visible to nor cleared by another thread
pub fn last_error_is_per_thread() -> bool {
    let bad = b"a >";
    let s = unsafe { lol_html_selector_parse(bad.as_ptr() as *const c_char, bad.len()) };
    if !s.is_null() { return false; }
    let other = std::thread::spawn(|| take_str(lol_html_take_last_error()).is_none()).join().unwrap_or(false);
    let mine = take_str(lol_html_take_last_error()).is_some();
    other && mine
}
